//! Parser for the text `{:?}` prints for the generated AST types (derived `Debug`), and its
//! reduction to the event sequence the AST oracle compares: tokens, `Some`/`None`, vector lengths.

#[derive(Debug, Clone, PartialEq)]
pub enum D {
    /// `Name`, `Name { f: v, .. }`, `Name(v, ..)`
    Named { name: String, fields: Vec<(Option<String>, D)> },
    List(Vec<D>),
    Tuple(Vec<D>),
    Str(String),
    Num(String),
}

#[derive(Debug, Clone, PartialEq, Eq)]
pub enum Ev {
    Tok { text: String, start: usize, end: usize },
    Some_,
    None_,
    Vec(usize),
}

struct P<'a> {
    s: &'a [u8],
    i: usize,
}

impl P<'_> {
    fn ws(&mut self) {
        while self.i < self.s.len() && (self.s[self.i] as char).is_whitespace() {
            self.i += 1;
        }
    }
    fn peek(&mut self) -> Option<u8> {
        self.ws();
        self.s.get(self.i).copied()
    }
    fn eat(&mut self, c: u8) -> bool {
        if self.peek() == Some(c) {
            self.i += 1;
            true
        } else {
            false
        }
    }
    fn err<T>(&self, m: &str) -> Result<T, String> {
        Err(format!("{m} at byte {}", self.i))
    }
    fn ident(&mut self) -> String {
        self.ws();
        let a = self.i;
        while self.i < self.s.len() {
            let c = self.s[self.i];
            if c.is_ascii_alphanumeric() || c == b'_' || c == b'#' || c >= 0x80 {
                self.i += 1;
            } else {
                break;
            }
        }
        String::from_utf8_lossy(&self.s[a..self.i]).to_string()
    }
    fn string(&mut self) -> Result<String, String> {
        // at the opening quote
        self.i += 1;
        let mut out: Vec<u8> = vec![];
        loop {
            let Some(&c) = self.s.get(self.i) else { return self.err("unterminated string") };
            self.i += 1;
            match c {
                b'"' => break,
                b'\\' => {
                    let Some(&e) = self.s.get(self.i) else { return self.err("bad escape") };
                    self.i += 1;
                    match e {
                        b'n' => out.push(b'\n'),
                        b'r' => out.push(b'\r'),
                        b't' => out.push(b'\t'),
                        b'0' => out.push(0),
                        b'\\' => out.push(b'\\'),
                        b'"' => out.push(b'"'),
                        b'\'' => out.push(b'\''),
                        b'u' => {
                            // \u{hex}
                            if self.s.get(self.i) != Some(&b'{') {
                                return self.err("bad unicode escape");
                            }
                            self.i += 1;
                            let a = self.i;
                            while self.s.get(self.i).is_some_and(|c| *c != b'}') {
                                self.i += 1;
                            }
                            let hex = std::str::from_utf8(&self.s[a..self.i]).unwrap_or("");
                            let cp = u32::from_str_radix(hex, 16).map_err(|e| e.to_string())?;
                            self.i += 1;
                            let ch = char::from_u32(cp).ok_or("bad code point")?;
                            let mut b = [0u8; 4];
                            out.extend_from_slice(ch.encode_utf8(&mut b).as_bytes());
                        }
                        _ => return self.err("unknown escape"),
                    }
                }
                _ => out.push(c),
            }
        }
        String::from_utf8(out).map_err(|e| e.to_string())
    }
    fn values(&mut self, close: u8) -> Result<Vec<D>, String> {
        let mut v = vec![];
        loop {
            if self.eat(close) {
                break;
            }
            v.push(self.value()?);
            if !self.eat(b',') {
                if !self.eat(close) {
                    return self.err("expected , or closing bracket");
                }
                break;
            }
        }
        Ok(v)
    }
    fn value(&mut self) -> Result<D, String> {
        match self.peek() {
            None => self.err("unexpected end"),
            Some(b'[') => {
                self.i += 1;
                Ok(D::List(self.values(b']')?))
            }
            Some(b'(') => {
                self.i += 1;
                Ok(D::Tuple(self.values(b')')?))
            }
            Some(b'"') => Ok(D::Str(self.string()?)),
            Some(c) if c.is_ascii_digit() || c == b'-' => {
                let a = self.i;
                self.i += 1;
                while self.s.get(self.i).is_some_and(|c| c.is_ascii_alphanumeric() || *c == b'.' || *c == b'_') {
                    self.i += 1;
                }
                Ok(D::Num(String::from_utf8_lossy(&self.s[a..self.i]).to_string()))
            }
            Some(_) => {
                let name = self.ident();
                if name.is_empty() {
                    return self.err("unexpected character");
                }
                if self.eat(b'{') {
                    let mut fields = vec![];
                    loop {
                        if self.eat(b'}') {
                            break;
                        }
                        let f = self.ident();
                        if f.is_empty() {
                            return self.err("expected field name");
                        }
                        if !self.eat(b':') {
                            return self.err("expected :");
                        }
                        let v = self.value()?;
                        fields.push((Some(f), v));
                        if !self.eat(b',') {
                            if !self.eat(b'}') {
                                return self.err("expected , or }");
                            }
                            break;
                        }
                    }
                    Ok(D::Named { name, fields })
                } else if self.eat(b'(') {
                    let vs = self.values(b')')?;
                    Ok(D::Named { name, fields: vs.into_iter().map(|v| (None, v)).collect() })
                } else {
                    Ok(D::Named { name, fields: vec![] })
                }
            }
        }
    }
}

pub fn parse(s: &str) -> Result<D, String> {
    let mut p = P { s: s.as_bytes(), i: 0 };
    let v = p.value()?;
    p.ws();
    if p.i != p.s.len() {
        return p.err("trailing text");
    }
    Ok(v)
}

fn field<'a>(fields: &'a [(Option<String>, D)], n: &str) -> Option<&'a D> {
    fields.iter().find(|(f, _)| f.as_deref() == Some(n)).map(|(_, v)| v)
}

fn num(d: Option<&D>) -> Option<usize> {
    match d {
        Some(D::Num(n)) => n.parse().ok(),
        _ => None,
    }
}

pub fn events(d: &D, out: &mut Vec<Ev>) {
    match d {
        D::Named { name, fields } if name == "Token" && field(fields, "text").is_some() => {
            let text = match field(fields, "text") {
                Some(D::Str(s)) => s.clone(),
                _ => String::new(),
            };
            let (start, end) = match field(fields, "location") {
                Some(D::Named { fields: lf, .. }) => (num(field(lf, "start")).unwrap_or(usize::MAX), num(field(lf, "end")).unwrap_or(usize::MAX)),
                _ => (usize::MAX, usize::MAX),
            };
            out.push(Ev::Tok { text, start, end });
        }
        D::Named { name, fields } if name == "Some" && fields.len() == 1 => {
            out.push(Ev::Some_);
            events(&fields[0].1, out);
        }
        D::Named { name, fields } if name == "None" && fields.is_empty() => out.push(Ev::None_),
        D::Named { fields, .. } => {
            for (_, v) in fields {
                events(v, out);
            }
        }
        D::List(vs) => {
            out.push(Ev::Vec(vs.len()));
            for v in vs {
                events(v, out);
            }
        }
        D::Tuple(vs) => {
            for v in vs {
                events(v, out);
            }
        }
        D::Str(_) | D::Num(_) => {}
    }
}

#[cfg(test)]
mod tests {
    use super::*;
    #[test]
    fn parses_derived_debug() {
        #[derive(Debug)]
        #[allow(dead_code)]
        struct A {
            x: Option<Box<B>>,
            v: Vec<B>,
            e: E,
        }
        #[derive(Debug)]
        #[allow(dead_code)]
        struct B(u32, String);
        #[derive(Debug)]
        #[allow(dead_code)]
        enum E {
            U,
            T(B),
        }
        let a = A { x: Some(Box::new(B(1, "q\"\n\u{1}é".into()))), v: vec![B(2, "".into()), B(3, "x".into())], e: E::T(B(4, "z".into())) };
        for text in [format!("{a:?}"), format!("{a:#?}")] {
            let d = parse(&text).unwrap();
            let mut ev = vec![];
            events(&d, &mut ev);
            assert_eq!(ev, vec![Ev::Some_, Ev::Vec(2)]);
        }
        let _ = E::U;
    }
}

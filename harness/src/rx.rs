//! A small regex AST with printer, generator and set-of-end-positions matcher (the `mini_regex`
//! oracle), plus the reference lexer that applies parol's documented tokenization rules.

use crate::chart::Tape;
use serde::{Deserialize, Serialize};
use std::collections::BTreeSet;

#[derive(Clone, Debug, Serialize, Deserialize, PartialEq, Eq, Hash)]
pub enum Rx {
    Lit(char),
    /// ranges, negated
    Class(Vec<(char, char)>, bool),
    Dot,
    Seq(Vec<Rx>),
    Alt(Vec<Rx>),
    Star(Box<Rx>),
    Plus(Box<Rx>),
    Opt(Box<Rx>),
}

const META: &str = r"\.+*?()|[]{}^$#&-~/";

impl Rx {
    pub fn lit_str(s: &str) -> Rx {
        Rx::Seq(s.chars().map(Rx::Lit).collect())
    }

    /// regex source text; `slash_escape`: also escape '/' (needed inside /../ literals)
    pub fn print(&self) -> String {
        match self {
            Rx::Lit(c) => {
                if META.contains(*c) {
                    format!("\\{c}")
                } else if *c == '\n' {
                    "\\n".into()
                } else if *c == '\r' {
                    "\\r".into()
                } else if *c == '\t' {
                    "\\t".into()
                } else {
                    c.to_string()
                }
            }
            Rx::Class(r, neg) => {
                let mut s = String::from("[");
                if *neg {
                    s.push('^');
                }
                for (a, b) in r {
                    let e = |c: char| if "\\]^-[".contains(c) { format!("\\{c}") } else { c.to_string() };
                    if a == b {
                        s.push_str(&e(*a));
                    } else {
                        s.push_str(&format!("{}-{}", e(*a), e(*b)));
                    }
                }
                s.push(']');
                s
            }
            Rx::Dot => ".".into(),
            Rx::Seq(v) => v.iter().map(|x| if matches!(x, Rx::Alt(_)) { format!("({})", x.print()) } else { x.print() }).collect(),
            Rx::Alt(v) => v.iter().map(|x| x.print()).collect::<Vec<_>>().join("|"),
            Rx::Star(x) => format!("{}*", x.atom()),
            Rx::Plus(x) => format!("{}+", x.atom()),
            Rx::Opt(x) => format!("{}?", x.atom()),
        }
    }

    fn atom(&self) -> String {
        match self {
            Rx::Lit(_) | Rx::Class(..) | Rx::Dot => self.print(),
            _ => format!("({})", self.print()),
        }
    }

    pub fn nullable(&self) -> bool {
        match self {
            Rx::Lit(_) | Rx::Class(..) | Rx::Dot => false,
            Rx::Seq(v) => v.iter().all(|x| x.nullable()),
            Rx::Alt(v) => v.iter().any(|x| x.nullable()),
            Rx::Star(_) | Rx::Opt(_) => true,
            Rx::Plus(x) => x.nullable(),
        }
    }

    /// all end positions (char indices) of matches starting at any position in `from`
    pub fn ends(&self, t: &[char], from: &BTreeSet<usize>) -> BTreeSet<usize> {
        match self {
            Rx::Lit(c) => from.iter().filter(|i| t.get(**i) == Some(c)).map(|i| i + 1).collect(),
            Rx::Class(r, neg) => from
                .iter()
                .filter(|i| t.get(**i).is_some_and(|c| r.iter().any(|(a, b)| a <= c && c <= b) != *neg))
                .map(|i| i + 1)
                .collect(),
            Rx::Dot => from.iter().filter(|i| t.get(**i).is_some_and(|c| *c != '\n')).map(|i| i + 1).collect(),
            Rx::Seq(v) => {
                let mut cur = from.clone();
                for x in v {
                    cur = x.ends(t, &cur);
                    if cur.is_empty() {
                        break;
                    }
                }
                cur
            }
            Rx::Alt(v) => v.iter().flat_map(|x| x.ends(t, from)).collect(),
            Rx::Star(x) => {
                let mut all = from.clone();
                let mut frontier = from.clone();
                loop {
                    let next: BTreeSet<usize> = x.ends(t, &frontier).into_iter().filter(|e| !all.contains(e)).collect();
                    if next.is_empty() {
                        break;
                    }
                    all.extend(next.iter().copied());
                    frontier = next;
                }
                all
            }
            Rx::Plus(x) => {
                let first = x.ends(t, from);
                Rx::Star(x.clone()).ends(t, &first)
            }
            Rx::Opt(x) => {
                let mut r = x.ends(t, from);
                r.extend(from.iter().copied());
                r
            }
        }
    }

    pub fn ends_at(&self, t: &[char], p: usize) -> BTreeSet<usize> {
        self.ends(t, &[p].into_iter().collect())
    }

    /// a string the pattern matches (deterministic, driven by the tape)
    pub fn sample(&self, tape: &mut Tape, alphabet: &[char], out: &mut String) {
        match self {
            Rx::Lit(c) => out.push(*c),
            Rx::Class(r, neg) => {
                let cands: Vec<char> = alphabet.iter().copied().filter(|c| r.iter().any(|(a, b)| a <= c && c <= b) != *neg).collect();
                if cands.is_empty() {
                    if !*neg {
                        out.push(r[0].0);
                    } else {
                        out.push('\u{1F600}');
                    }
                } else {
                    out.push(cands[tape.next(cands.len())]);
                }
            }
            Rx::Dot => out.push(alphabet[tape.next(alphabet.len())]),
            Rx::Seq(v) => v.iter().for_each(|x| x.sample(tape, alphabet, out)),
            Rx::Alt(v) => v[tape.next(v.len())].sample(tape, alphabet, out),
            Rx::Star(x) => (0..tape.next(3)).for_each(|_| x.sample(tape, alphabet, out)),
            Rx::Plus(x) => (0..1 + tape.next(3)).for_each(|_| x.sample(tape, alphabet, out)),
            Rx::Opt(x) => {
                if tape.next(2) == 1 {
                    x.sample(tape, alphabet, out)
                }
            }
        }
    }
}

/// random non-nullable pattern over a small alphabet
pub fn gen_rx(t: &mut Tape, alphabet: &[char], depth: usize) -> Rx {
    fn atom(t: &mut Tape, al: &[char]) -> Rx {
        match t.next(8) {
            0..=4 => Rx::Lit(al[t.next(al.len())]),
            5 => {
                let a = al[t.next(al.len())];
                let b = al[t.next(al.len())];
                let (a, b) = if a <= b { (a, b) } else { (b, a) };
                Rx::Class(vec![(a, b)], false)
            }
            6 => Rx::Class(vec![(al[t.next(al.len())], al[t.next(al.len())])].into_iter().map(|(a, b)| if a <= b { (a, b) } else { (b, a) }).collect(), true),
            _ => Rx::Dot,
        }
    }
    fn go(t: &mut Tape, al: &[char], depth: usize) -> Rx {
        if depth == 0 {
            return atom(t, al);
        }
        match t.next(10) {
            0..=3 => atom(t, al),
            4..=5 => Rx::Seq((0..2 + t.next(2)).map(|_| go(t, al, depth - 1)).collect()),
            6 => Rx::Alt((0..2 + t.next(2)).map(|_| go(t, al, depth - 1)).collect()),
            7 => Rx::Star(Box::new(go(t, al, depth - 1))),
            8 => Rx::Plus(Box::new(go(t, al, depth - 1))),
            _ => Rx::Opt(Box::new(go(t, al, depth - 1))),
        }
    }
    let mut r = go(t, alphabet, depth);
    if r.nullable() {
        r = Rx::Seq(vec![Rx::Lit(alphabet[t.next(alphabet.len())]), r]);
    }
    // a Star/Plus over a nullable body is legal regex but pointless; keep as is
    r
}

// ---------------------------------------------------------------------------------------------
// reference lexer

pub const T_EOI: u16 = 0;
pub const T_NL: u16 = 1;
pub const T_WS: u16 = 2;
pub const T_LC: u16 = 3;
pub const T_BC: u16 = 4;
pub const T_INVALID: u16 = u16::MAX - 1;

#[derive(Clone, Debug)]
pub enum Sw {
    Enter(usize),
    Push(usize),
    Pop,
}

#[derive(Clone, Debug)]
pub struct RefTerm {
    pub ty: u16,
    pub rx: Rx,
    pub lookahead: Option<(bool, Rx)>,
}

#[derive(Clone, Debug, Default)]
pub struct RefMode {
    pub auto_nl: bool,
    pub auto_ws: bool,
    /// literal start strings
    pub line_comments: Vec<String>,
    pub block_comments: Vec<(String, String)>,
    pub allow_unmatched: bool,
    /// in priority order
    pub terms: Vec<RefTerm>,
    pub transitions: Vec<(u16, Sw)>,
}

#[derive(Clone, Debug, PartialEq, Eq)]
pub struct RefTok {
    pub ty: u16,
    /// byte offsets
    pub start: usize,
    pub end: usize,
}

pub fn is_ws(c: char) -> bool {
    c.is_whitespace() && c != '\r' && c != '\n'
}

fn starts_with_at(t: &[char], p: usize, s: &str) -> bool {
    let sc: Vec<char> = s.chars().collect();
    !sc.is_empty() && p + sc.len() <= t.len() && t[p..p + sc.len()] == sc[..]
}

/// Tokenizes by the documented rules.  `error_ty` is the type of the error token.
/// Returns tokens without EOI, including INVALID gap tokens.
pub fn ref_lex(modes: &[RefMode], input: &str, error_ty: u16) -> Vec<RefTok> {
    ref_lex_flags(modes, input, error_ty).0
}

/// as `ref_lex`; the flag says whether, at some position the lexer visited, a terminal's longest
/// match failed its lookahead condition while a shorter match of the same terminal satisfied it
pub fn ref_lex_flags(modes: &[RefMode], input: &str, error_ty: u16) -> (Vec<RefTok>, bool) {
    let mut shorter_match_needed = false;
    let t: Vec<char> = input.chars().collect();
    let mut byte_of: Vec<usize> = input.char_indices().map(|(i, _)| i).collect();
    byte_of.push(input.len());
    let mut out: Vec<RefTok> = vec![];
    let mut mode = 0usize;
    let mut stack: Vec<usize> = vec![];
    let mut p = 0usize;
    let mut gap_start: Option<usize> = None;
    while p < t.len() {
        let m = &modes[mode];
        // (end, priority, type)
        let mut best: Option<(usize, usize, u16)> = None;
        let mut consider = |end: usize, prio: usize, ty: u16| {
            if end > p {
                match best {
                    Some((e, pr, _)) if e > end || (e == end && pr <= prio) => {}
                    _ => best = Some((end, prio, ty)),
                }
            }
        };
        let mut prio = 0usize;
        if m.auto_nl {
            if t[p] == '\r' && t.get(p + 1) == Some(&'\n') {
                consider(p + 2, prio, T_NL);
            } else if t[p] == '\r' || t[p] == '\n' {
                consider(p + 1, prio, T_NL);
            }
        }
        prio += 1;
        if m.auto_ws {
            let mut e = p;
            while e < t.len() && is_ws(t[e]) {
                e += 1;
            }
            consider(e, prio, T_WS);
        }
        prio += 1;
        for s in &m.line_comments {
            if starts_with_at(&t, p, s) {
                let mut e = p + s.chars().count();
                while e < t.len() && t[e] != '\n' && t[e] != '\r' {
                    e += 1;
                }
                if e < t.len() {
                    if t[e] == '\r' && t.get(e + 1) == Some(&'\n') {
                        e += 2;
                    } else {
                        e += 1;
                    }
                }
                consider(e, prio, T_LC);
            }
        }
        prio += 1;
        for (s, en) in &m.block_comments {
            if starts_with_at(&t, p, s) {
                let from = p + s.chars().count();
                if let Some(q) = (from..t.len()).find(|q| starts_with_at(&t, *q, en)) {
                    consider(q + en.chars().count(), prio, T_BC);
                }
            }
        }
        prio += 1;
        for term in &m.terms {
            let ends = term.rx.ends_at(&t, p);
            let longest = ends.iter().copied().max();
            let ok = ends.into_iter().filter(|e| match &term.lookahead {
                None => true,
                Some((pos, la)) => !la.ends_at(&t, *e).is_empty() == *pos,
            });
            if let Some(e) = ok.max() {
                if Some(e) != longest {
                    shorter_match_needed = true;
                }
                consider(e, prio, term.ty);
            }
            prio += 1;
        }
        if !m.allow_unmatched && t[p] != '\n' {
            consider(p + 1, prio, error_ty);
        }
        match best {
            Some((end, _, ty)) => {
                if let Some(g) = gap_start.take() {
                    out.push(RefTok { ty: T_INVALID, start: byte_of[g], end: byte_of[p] });
                }
                out.push(RefTok { ty, start: byte_of[p], end: byte_of[end] });
                p = end;
                if let Some((_, sw)) = m.transitions.iter().find(|(tt, _)| *tt == ty) {
                    match sw {
                        Sw::Enter(n) => mode = *n,
                        Sw::Push(n) => {
                            stack.push(mode);
                            mode = *n;
                        }
                        Sw::Pop => {
                            if let Some(n) = stack.pop() {
                                mode = n;
                            }
                        }
                    }
                }
            }
            None => {
                if gap_start.is_none() {
                    gap_start = Some(p);
                }
                p += 1;
            }
        }
    }
    if let Some(g) = gap_start.take() {
        out.push(RefTok { ty: T_INVALID, start: byte_of[g], end: byte_of[t.len()] });
    }
    (out, shorter_match_needed)
}

/// (line, column) of the character that starts at byte offset `off` (or would start there):
/// 1-based, columns count characters, only '\n' starts a new line
pub fn pos_ref(input: &str, off: usize) -> (u32, u32) {
    let mut line = 1u32;
    let mut col = 1u32;
    for (i, c) in input.char_indices() {
        if i >= off {
            break;
        }
        if c == '\n' {
            line += 1;
            col = 1;
        } else {
            col += 1;
        }
    }
    (line, col)
}

#[cfg(test)]
mod tests {
    use super::*;

    #[test]
    fn mini_regex_agrees_with_regex_crate() {
        let al = ['a', 'b', 'c', '+', '.'];
        let mut seed: u32 = 12345;
        let mut next = move || {
            seed = seed.wrapping_mul(1664525).wrapping_add(1013904223);
            (seed >> 16) as u16
        };
        for _ in 0..400 {
            let tape: Vec<u16> = (0..40).map(|_| next()).collect();
            let mut t = Tape { data: &tape, pos: 0 };
            let rx = gen_rx(&mut t, &al, 2);
            let re = regex::Regex::new(&format!("^(?:{})$", rx.print())).unwrap_or_else(|e| panic!("{} {e}", rx.print()));
            for _ in 0..30 {
                let n = (next() % 6) as usize;
                let s: String = (0..n).map(|_| al[(next() as usize) % al.len()]).collect();
                let chars: Vec<char> = s.chars().collect();
                let mine = rx.ends_at(&chars, 0).contains(&chars.len());
                assert_eq!(mine, re.is_match(&s), "pattern {} on {s:?}", rx.print());
            }
        }
    }
}

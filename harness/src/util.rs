//! Panic capture, hashing, small helpers.

use std::cell::RefCell;
use std::hash::{Hash, Hasher};
use std::panic::{AssertUnwindSafe, catch_unwind};
use std::sync::Once;

thread_local! {
    static LAST_PANIC: RefCell<Option<String>> = const { RefCell::new(None) };
}

static HOOK: Once = Once::new();

pub fn install_panic_hook() {
    HOOK.call_once(|| {
        std::panic::set_hook(Box::new(|info| {
            let msg = if let Some(s) = info.payload().downcast_ref::<&str>() {
                s.to_string()
            } else if let Some(s) = info.payload().downcast_ref::<String>() {
                s.clone()
            } else {
                "<non-string panic payload>".to_string()
            };
            let loc = info
                .location()
                .map(|l| format!("{}:{}", l.file(), l.line()))
                .unwrap_or_default();
            if std::env::var("PV_DEBUG").is_ok() {
                eprintln!("PANIC {msg} @ {loc}");
            }
            LAST_PANIC.with(|p| *p.borrow_mut() = Some(format!("{msg} @ {loc}")));
        }));
    });
}

/// Runs f, turning a panic into Err(message @ location)
pub fn guard<T>(f: impl FnOnce() -> T) -> Result<T, String> {
    install_panic_hook();
    LAST_PANIC.with(|p| *p.borrow_mut() = None);
    match catch_unwind(AssertUnwindSafe(f)) {
        Ok(v) => Ok(v),
        Err(_) => Err(LAST_PANIC
            .with(|p| p.borrow_mut().take())
            .unwrap_or_else(|| "<panic without message>".to_string())),
    }
}

pub fn hash_of<T: Hash>(t: &T) -> u64 {
    #[allow(deprecated)]
    let mut h = std::hash::SipHasher::new();
    t.hash(&mut h);
    h.finish()
}

pub fn hash_str(s: &str) -> u64 {
    hash_of(&s)
}

/// monotone index mapping so that shrinking a u16 towards 0 shrinks the index
pub fn pick(v: u16, n: usize) -> usize {
    if n == 0 { 0 } else { ((v as usize) * n) >> 16 }
}

pub fn leak_str(s: &str) -> &'static str {
    Box::leak(s.to_string().into_boxed_str())
}

pub fn leak_slice<T>(v: Vec<T>) -> &'static [T] {
    Box::leak(v.into_boxed_slice())
}

pub fn trunc(s: &str, n: usize) -> String {
    if s.len() <= n {
        s.to_string()
    } else {
        let mut e = n;
        while !s.is_char_boundary(e) {
            e -= 1;
        }
        format!("{}…", &s[..e])
    }
}

use std::io::Write;
use std::sync::Mutex;

static OUT: Mutex<Option<std::fs::File>> = Mutex::new(None);

/// parol prints diagnostics (resolved conflicts, ...) with println!.  The harness moves the real
/// stdout to a private descriptor and points fd 1 to /dev/null, so only the harness's own report
/// reaches the caller's stdout.
pub fn capture_stdout() {
    use std::os::fd::FromRawFd;
    unsafe {
        let saved = libc::dup(1);
        let null = libc::open(c"/dev/null".as_ptr(), libc::O_WRONLY);
        if saved >= 0 && null >= 0 {
            libc::dup2(null, 1);
            libc::close(null);
            *OUT.lock().unwrap() = Some(std::fs::File::from_raw_fd(saved));
        }
    }
}

pub fn out_line(s: &str) {
    let mut g = OUT.lock().unwrap();
    match g.as_mut() {
        Some(f) => {
            let _ = writeln!(f, "{s}");
            let _ = f.flush();
        }
        None => println!("{s}"),
    }
}

#[macro_export]
macro_rules! out {
    ($($arg:tt)*) => { $crate::util::out_line(&format!($($arg)*)) };
}

//! Generators.  All of them are deterministic functions of a choice tape (`Vec<u16>` produced by
//! proptest), so proptest owns every random choice, shrinks it, and a fuzzer can drive the same
//! decoders from bytes.  Smaller tape values always select the simpler alternative.

use crate::ast::*;
use crate::chart::{self, Tape};
use serde::{Deserialize, Serialize};
use std::collections::BTreeSet;

/// Words that tokenize to themselves when separated by whitespace.  No quote characters, no
/// backslash, no '/', '#', '~' (reserved for comments / foreign tokens).
pub const SIMPLE_TERMS: &[&str] = &[
    "a", "b", "c", "d", "e", "f", "g", "x", "y", "+", "*", "(", ")", ",", ";", "if", "else", "=", "==", "[", "]",
    "{", "}", "|", "^", "$", ".", "?", "-", "<", ">", "id", "a1", "ab", "&", "!", "%", ":", "@",
];

pub const NT_NAMES: &[&str] = &["S", "A", "B", "C", "D", "E", "F", "G"];

pub const FOREIGN: &str = "~";

#[derive(Clone, Debug)]
pub struct GenParams {
    pub max_nt: usize,
    pub max_t: usize,
    pub max_alts: usize,
    pub max_len: usize,
    pub max_depth: usize,
    /// alternatives of one non-terminal start with distinct terminals where possible
    pub ll_bias: bool,
    /// allow non-terminals (including the lhs itself) at the start of an alternative
    pub left_rec: bool,
    pub ebnf: bool,
    pub comments: bool,
    pub fix_nullable_bodies: bool,
    /// productivity / reachability repairs (off = wild grammars with all pathologies)
    pub repair: bool,
    /// helper-looking non-terminal names (XOpt, XList, XGroup, XSuffix, numeric suffixes)
    pub hostile_names: bool,
}

impl GenParams {
    pub fn ll() -> Self {
        GenParams { max_nt: 5, max_t: 7, max_alts: 3, max_len: 4, max_depth: 2, ll_bias: true, left_rec: false, ebnf: true, comments: true, fix_nullable_bodies: true, repair: true, hostile_names: false }
    }
    pub fn lr() -> Self {
        GenParams { max_nt: 5, max_t: 6, max_alts: 3, max_len: 4, max_depth: 2, ll_bias: true, left_rec: true, ebnf: true, comments: true, fix_nullable_bodies: true, repair: true, hostile_names: false }
    }
}

struct G<'a, 'b> {
    t: &'a mut Tape<'b>,
    p: &'a GenParams,
    terms: Vec<&'static str>,
    n_nt: usize,
}

impl G<'_, '_> {
    fn factor(&mut self, nt: usize, at_start: bool, depth: usize, first_used: &mut Vec<usize>) -> Factor {
        let kind = self.t.next(10);
        let can_nest = self.p.ebnf && depth < self.p.max_depth;
        match kind {
            5 | 6 => {
                // non-terminal
                if at_start && !self.p.left_rec {
                    if nt + 1 < self.n_nt {
                        let j = nt + 1 + self.t.next(self.n_nt - nt - 1);
                        return Factor::n(NT_NAMES[j]);
                    }
                    return self.terminal(at_start, first_used);
                }
                let j = self.t.next(self.n_nt);
                Factor::n(NT_NAMES[j])
            }
            7 if can_nest => Factor::Opt(self.inner(nt, at_start, depth + 1)),
            8 if can_nest => Factor::Rep(self.inner(nt, at_start, depth + 1)),
            9 if can_nest => {
                let mut a = self.inner(nt, at_start, depth + 1);
                // now and then a group with an empty alternative: `( x | )`
                if a.len() == 2 && self.t.next(5) == 4 {
                    a[1].clear();
                }
                Factor::Group(a)
            }
            _ => self.terminal(at_start, first_used),
        }
    }

    fn terminal(&mut self, at_start: bool, first_used: &mut Vec<usize>) -> Factor {
        let n = self.terms.len();
        let mut i = self.t.next(n);
        if at_start && self.p.ll_bias {
            // rotate to a terminal no other alternative of this non-terminal starts with;
            // one choice in eight keeps the collision (needs more lookahead / left factoring)
            if self.t.next(8) != 7 {
                for _ in 0..n {
                    if !first_used.contains(&i) {
                        break;
                    }
                    i = (i + 1) % n;
                }
            }
            first_used.push(i);
        }
        Factor::t(self.terms[i])
    }

    fn inner(&mut self, nt: usize, at_start: bool, depth: usize) -> Alts {
        let n_alts = 1 + self.t.next(2);
        let mut fu = vec![];
        (0..n_alts)
            .map(|_| {
                let len = 1 + self.t.next(2);
                let mut st = at_start;
                let mut alt: Alt = vec![];
                for _ in 0..len {
                    let f = self.factor(nt, st, depth, &mut fu);
                    if matches!(f, Factor::T { .. }) {
                        st = false;
                    }
                    alt.push(f);
                }
                alt
            })
            .collect()
    }
}

fn refs_in(a: &Alts, out: &mut BTreeSet<String>) {
    for alt in a {
        for f in alt {
            match f {
                Factor::N { name, .. } => {
                    out.insert(name.clone());
                }
                Factor::T { .. } => {}
                Factor::Group(a) | Factor::Opt(a) | Factor::Rep(a) => refs_in(a, out),
            }
        }
    }
}

/// A random EBNF grammar over `simple` terminals.  Productive and reachable by construction
/// (repair steps), biased towards LL-decidable shapes when `ll_bias` is set.
pub fn grammar(t: &mut Tape, p: &GenParams) -> Grammar {
    let n_nt = 1 + t.next(p.max_nt);
    let n_t = 2 + t.next(p.max_t - 1);
    // choose distinct terminals
    let mut pool: Vec<&'static str> = SIMPLE_TERMS.to_vec();
    let mut terms = vec![];
    for _ in 0..n_t {
        let i = t.next(pool.len());
        terms.push(pool.remove(i));
    }
    let mut g = G { t: &mut *t, p, terms, n_nt };
    let mut prods = vec![];
    for nt in 0..n_nt {
        let n_alts = 1 + g.t.next(p.max_alts);
        let mut first_used = vec![];
        let mut alts = vec![];
        for _ in 0..n_alts {
            let len = g.t.next(p.max_len + 1);
            let mut alt: Alt = vec![];
            // "at start" holds until a terminal was emitted: every non-terminal before the first
            // terminal has a higher index, so LL-mode grammars are free of left recursion
            let mut at_start = true;
            for _ in 0..len {
                let f = g.factor(nt, at_start, 0, &mut first_used);
                if matches!(f, Factor::T { .. }) {
                    at_start = false;
                }
                alt.push(f);
            }
            alts.push(alt);
        }
        prods.push(Prod { lhs: NT_NAMES[nt].to_string(), alts });
    }
    let terms = g.terms.clone();
    drop(g);
    let mut gr = Grammar::new(NT_NAMES[0], prods);
    // repair: reachability
    while p.repair {
        let mut reach: BTreeSet<String> = [gr.start.clone()].into_iter().collect();
        loop {
            let mut more = BTreeSet::new();
            for p in &gr.prods {
                if reach.contains(&p.lhs) {
                    refs_in(&p.alts, &mut more);
                }
            }
            let before = reach.len();
            reach.extend(more);
            if reach.len() == before {
                break;
            }
        }
        let Some(bad) = (0..n_nt).find(|i| !reach.contains(NT_NAMES[*i])) else { break };
        // append a reference to it at the end of the first alternative of a reachable non-terminal
        let host = (0..bad).rev().find(|i| reach.contains(NT_NAMES[*i])).unwrap_or(0);
        let alt = &mut gr.prods[host].alts[0];
        if alt.is_empty() {
            alt.push(Factor::t(terms[0]));
        }
        alt.push(Factor::n(NT_NAMES[bad]));
    }
    // repair: productivity (after reachability: appended references can make a host unproductive)
    while p.repair {
        let ig = IGrammar::from(&gr);
        let h = chart::min_heights(&ig);
        let Some(bad) = (0..n_nt).find(|i| h[*i] == usize::MAX) else { break };
        let term = terms[bad % terms.len()];
        gr.prods[bad].alts.push(vec![Factor::t(term)]);
    }
    // a repetition or option whose body derives the empty word is ambiguous in itself (and parol
    // reports it as left recursion); give nullable body alternatives a leading terminal.
    // Duplicate alternatives (in particular several empty ones) are removed for the same reason.
    if p.fix_nullable_bodies {
        loop {
            let nullable = nullable_nts(&gr);
            let mut changed = false;
            let t0 = terms[0];
            for pr in &mut gr.prods {
                changed |= fix_bodies(&mut pr.alts, &nullable, t0, false);
            }
            if !changed {
                break;
            }
        }
        for pr in &mut gr.prods {
            let mut seen: Vec<Alt> = vec![];
            pr.alts.retain(|a| {
                if seen.contains(a) {
                    false
                } else {
                    seen.push(a.clone());
                    true
                }
            });
        }
    }
    if p.hostile_names {
        hostile_rename(&mut gr, t, n_nt);
    }
    if p.comments {
        gr.initial.line_comments.push(Lit::raw("//"));
        gr.initial.block_comments.push((Lit::raw("/*"), Lit::raw("*/")));
    }
    gr
}

pub const HELPER_SUFFIXES: &[&str] = &["Opt", "List", "Group", "Suffix", "Opt0", "List0", "Group0", "Suffix0", "0", "1", "Opt1", "ListGroup", "OptGroup"];

pub fn rename_nt(a: &mut Alts, from: &str, to: &str) {
    for alt in a.iter_mut() {
        for f in alt.iter_mut() {
            match f {
                Factor::N { name, .. } if name == from => *name = to.to_string(),
                Factor::Group(x) | Factor::Opt(x) | Factor::Rep(x) => rename_nt(x, from, to),
                _ => {}
            }
        }
    }
}

/// renames some non-terminals to names that look like the helpers parol generates
fn hostile_rename(gr: &mut Grammar, t: &mut Tape, n_nt: usize) {
    // numbered start symbol with numbered siblings (S1, S2, S3: the names a fresh-name search
    // starting from the start symbol would try next)
    if t.next(4) == 0 {
        let n = t.next(3);
        let stem = ["S", "Expr", "A"][t.next(3)];
        let mut k = n;
        for i in 0..n_nt.min(1 + t.next(3)) {
            let new = format!("{stem}{k}");
            k += 1;
            if gr.prods.iter().any(|p| p.lhs == new) {
                continue;
            }
            let old = gr.prods[i].lhs.clone();
            for p in gr.prods.iter_mut() {
                if p.lhs == old {
                    p.lhs = new.clone();
                }
                rename_nt(&mut p.alts, &old, &new);
            }
            if gr.start == old {
                gr.start = new.clone();
            }
        }
    }
    for i in 1..n_nt {
        if t.next(3) != 0 {
            continue;
        }
        let base = NT_NAMES[t.next(i)].to_string();
        let base = gr.prods.get(NT_NAMES.iter().position(|n| *n == base).unwrap_or(0)).map(|p| p.lhs.clone()).unwrap_or(base);
        let new = format!("{base}{}", HELPER_SUFFIXES[t.next(HELPER_SUFFIXES.len())]);
        if gr.prods.iter().any(|p| p.lhs == new) {
            continue;
        }
        let old = gr.prods[i].lhs.clone();
        for p in gr.prods.iter_mut() {
            if p.lhs == old {
                p.lhs = new.clone();
            }
            rename_nt(&mut p.alts, &old, &new);
        }
    }
    // occasionally a reference to an undefined helper-looking name inside a nested construct
    if t.next(6) == 0 {
        let host = t.next(gr.prods.len());
        let name = format!("{}{}", gr.prods[host].lhs, HELPER_SUFFIXES[t.next(4)]);
        if !gr.prods.iter().any(|p| p.lhs == name) {
            fn first_nested(a: &mut Alts) -> Option<&mut Alts> {
                for alt in a.iter_mut() {
                    for f in alt.iter_mut() {
                        if let Factor::Group(x) | Factor::Opt(x) | Factor::Rep(x) = f {
                            return Some(x);
                        }
                    }
                }
                None
            }
            if let Some(x) = first_nested(&mut gr.prods[host].alts) {
                if let Some(alt) = x.first_mut() {
                    alt.insert(0, Factor::n(&name));
                }
            }
        }
    }
}

pub fn nullable_nts(g: &Grammar) -> BTreeSet<String> {
    let mut n: BTreeSet<String> = BTreeSet::new();
    loop {
        let before = n.len();
        for p in &g.prods {
            if p.alts.iter().any(|a| alt_nullable(a, &n)) {
                n.insert(p.lhs.clone());
            }
        }
        if n.len() == before {
            return n;
        }
    }
}

pub fn alt_nullable(a: &Alt, n: &BTreeSet<String>) -> bool {
    a.iter().all(|f| match f {
        Factor::T { .. } => false,
        Factor::N { name, .. } => n.contains(name),
        Factor::Group(x) => x.iter().any(|a| alt_nullable(a, n)),
        Factor::Opt(_) | Factor::Rep(_) => true,
    })
}

fn fix_bodies(alts: &mut Alts, n: &BTreeSet<String>, t0: &str, is_body: bool) -> bool {
    let mut changed = false;
    for alt in alts.iter_mut() {
        if is_body && alt_nullable(alt, n) {
            alt.insert(0, Factor::t(t0));
            changed = true;
        }
        for f in alt.iter_mut() {
            match f {
                Factor::Opt(x) | Factor::Rep(x) => changed |= fix_bodies(x, n, t0, true),
                Factor::Group(x) => changed |= fix_bodies(x, n, t0, is_body && false),
                _ => {}
            }
        }
    }
    changed
}

#[derive(Clone, Debug, Serialize, Deserialize, PartialEq, Eq, Hash)]
pub enum InTok {
    /// index into the grammar's terminals (`Grammar::terms()` order)
    T(usize),
    /// a text no terminal, whitespace or comment rule matches
    Foreign,
}

/// Input = tokens plus one separator choice per gap (and before the first / after the last)
#[derive(Clone, Debug, Serialize, Deserialize, PartialEq, Eq, Hash)]
pub struct Input {
    pub toks: Vec<InTok>,
    pub seps: Vec<u8>,
}

pub const SEPS: &[&str] = &[" ", "\n", "  ", "\t", "\r\n", " /* c */ ", " // lc\n", "\n\n ", " /**/ ", "/* a\nb */"];

impl Input {
    pub fn render(&self, terms: &[Term], comments: bool) -> String {
        let mut s = String::new();
        let sep = |i: usize| -> &str {
            let k = self.seps.get(i).copied().unwrap_or(0) as usize % SEPS.len();
            let x = SEPS[k];
            if !comments && x.contains('/') { " " } else { x }
        };
        // leading separator only when chosen non-default
        if self.seps.first().copied().unwrap_or(0) != 0 {
            s.push_str(sep(0));
        }
        for (i, t) in self.toks.iter().enumerate() {
            if i > 0 {
                s.push_str(sep(i));
            }
            match t {
                InTok::T(k) => s.push_str(&terms[*k].sample),
                InTok::Foreign => s.push_str(FOREIGN),
            }
        }
        if self.seps.get(self.toks.len()).copied().unwrap_or(0) != 0 {
            s.push_str(sep(self.toks.len()));
        }
        s
    }

    pub fn ids(&self) -> Vec<usize> {
        self.toks.iter().map(|t| match t { InTok::T(k) => *k, InTok::Foreign => usize::MAX }).collect()
    }
}

/// Generates an input for a grammar: sentence / mutant / random
pub fn input(ig: &IGrammar, heights: &[usize], tape: &[u16]) -> Input {
    input_mode(ig, heights, tape, false)
}

/// `sentences_only`: never mutate, never random
pub fn input_mode(ig: &IGrammar, heights: &[usize], tape: &[u16], sentences_only: bool) -> Input {
    let mut t = Tape { data: tape, pos: 0 };
    let nterm = ig.terms.len();
    let rt = |t: &mut Tape| if nterm == 0 { InTok::Foreign } else { InTok::T(t.next(nterm)) };
    let kind = if sentences_only { t.next(2) } else { t.next(5) }; // 0,1 sentence; 2,3 mutant; 4 random
    let budget = 2 + t.next(5);
    let mut toks: Vec<InTok> = vec![];
    if kind < 4 {
        let mut out = vec![];
        if ig.start != usize::MAX && chart::derive(ig, heights, ig.start, budget, &mut t, &mut out) {
            out.truncate(30);
            toks = out.into_iter().map(InTok::T).collect();
        }
        if kind >= 2 {
            let n_mut = 1 + t.next(2);
            for _ in 0..n_mut {
                let op = t.next(7);
                let len = toks.len();
                let pos = t.next(len + 1);
                match op {
                    0 if len > 0 => {
                        toks.remove(pos.min(len - 1));
                    }
                    1 => { let x = rt(&mut t); toks.insert(pos, x) }
                    2 if len > 0 => toks[pos.min(len - 1)] = rt(&mut t),
                    3 if len > 1 => {
                        let p = pos.min(len - 2);
                        toks.swap(p, p + 1);
                    }
                    4 if len > 0 => {
                        let x = toks[pos.min(len - 1)].clone();
                        toks.insert(pos, x);
                    }
                    5 => toks.truncate(pos),
                    6 => toks.insert(pos, InTok::Foreign),
                    _ => { let x = rt(&mut t); toks.insert(pos, x) }
                }
            }
        }
    } else {
        let len = t.next(9);
        for _ in 0..len {
            let x = rt(&mut t);
            toks.push(x);
        }
    }
    toks.truncate(40);
    let seps = (0..=toks.len()).map(|_| if t.next(3) == 0 { t.next(SEPS.len()) as u8 } else { 0 }).collect();
    Input { toks, seps }
}

/// Decorates a grammar with everything PAR can express: AST control annotations, user types,
/// declarations, quoting styles, lookaheads, scanner states with terminal membership, %skip / %on
/// through primary non-terminals, comment declarations and scanner flags.
pub fn annotate(g: &mut Grammar, t: &mut Tape) {
    let member_names = ["lhs", "rhs", "item", "op", "first", "rest", "value_1", "x"];
    let user_types = ["MyType", "crate::types::Num", "my_mod::Wrapper", "u32Wrapper"];
    // declarations
    if t.next(3) == 0 {
        g.title = Some(["A title", "T", "x y z", "a\\b", "say \\\"hi\\\"", "tab\there", "\u{e9}\u{4e2d}", "\\d+ x"][t.next(8)].to_string());
    }
    if t.next(3) == 0 {
        g.comment = Some(["A comment", "c", "C:\\dir\\file", "line1\nline2", "q \\\" q"][t.next(5)].to_string());
    }
    if t.next(3) == 0 {
        g.user_types.push(("Alias".into(), user_types[t.next(user_types.len())].to_string()));
    }
    if t.next(4) == 0 {
        g.t_type = Some(user_types[t.next(user_types.len())].to_string());
    }
    let nts = g.nts();
    if t.next(3) == 0 && nts.len() > 1 {
        g.nt_types.push((nts[1 + t.next(nts.len() - 1)].clone(), user_types[t.next(user_types.len())].to_string()));
    }
    // scanner states
    let n_states = t.next(3);
    for i in 0..n_states {
        let mut sc = ScannerDecl { name: format!("State{i}"), ..Default::default() };
        sc.auto_newline_off = t.next(4) == 0;
        sc.auto_ws_off = t.next(4) == 0;
        sc.allow_unmatched = t.next(3) == 0;
        if t.next(3) == 0 {
            sc.line_comments.push(Lit::raw(["#", "--", ";;"][t.next(3)]));
        }
        if t.next(3) == 0 {
            sc.block_comments.push((Lit::raw(["(*", "{-"][t.next(2)]), Lit::raw(["*)", "-}"][t.next(2)])));
        }
        g.scanners.push(sc);
    }
    g.initial.auto_newline_off = t.next(6) == 0;
    g.initial.auto_ws_off = t.next(6) == 0;
    g.initial.allow_unmatched = t.next(3) == 0;
    let state_names: Vec<String> = std::iter::once("INITIAL".to_string()).chain(g.scanners.iter().map(|s| s.name.clone())).collect();
    // a primary non-terminal for %on / %skip
    if t.next(2) == 0 {
        g.prods.push(Prod { lhs: "Prim".into(), alts: vec![vec![Factor::t("prim")]] });
        // make it reachable: append to the first alternative of the start symbol inside an option
        let start = g.start.clone();
        if let Some(p) = g.prods.iter_mut().find(|p| p.lhs == start) {
            p.alts[0].push(Factor::Opt(vec![vec![Factor::n("Prim")]]));
        }
        if !g.scanners.is_empty() && t.next(2) == 0 {
            let target = state_names[t.next(state_names.len())].clone();
            let sw = match t.next(3) {
                0 => Switch::Enter(target),
                1 => Switch::Push(target),
                _ => Switch::Pop,
            };
            g.initial.on.push((vec!["Prim".into()], sw));
        }
    }
    if t.next(3) == 0 {
        g.prods.push(Prod { lhs: "Skp".into(), alts: vec![vec![Factor::t("skipme")]] });
        g.initial.skip.push("Skp".into());
    }
    // symbol annotations
    fn walk(a: &mut Alts, t: &mut Tape, member_names: &[&str], user_types: &[&str], state_names: &[String], top: bool) {
        for alt in a.iter_mut() {
            for f in alt.iter_mut() {
                match f {
                    Factor::T { term, states, ann } => {
                        match t.next(8) {
                            0 => ann.clip = true,
                            1 => ann.member = Some(member_names[t.next(member_names.len())].to_string()),
                            2 => ann.utype = Some(user_types[t.next(user_types.len())].to_string()),
                            3 => {
                                ann.member = Some(member_names[t.next(member_names.len())].to_string());
                                ann.utype = Some("Alias".to_string());
                            }
                            _ => {}
                        }
                        if t.next(5) == 0 {
                            term.lit.quote = Quote::Str;
                            term.lit.text = regex::escape(&term.lit.text);
                        } else if t.next(5) == 0 {
                            term.lit.quote = Quote::Rx;
                            term.lit.text = regex::escape(&term.lit.text).replace('/', "\\/");
                        }
                        if t.next(8) == 0 {
                            let q = [Quote::Raw, Quote::Str, Quote::Rx][t.next(3)];
                            term.lookahead = Some((t.next(2) == 0, Lit { text: ["x", "ab", "q", ".", "a+", "(b)"][t.next(6)].to_string(), quote: q }));
                        }
                        if state_names.len() > 1 && t.next(4) == 0 {
                            let mut s: Vec<String> = state_names.iter().filter(|_| t.next(2) == 0).cloned().collect();
                            if s.is_empty() {
                                s.push(state_names[t.next(state_names.len())].clone());
                            }
                            *states = s;
                        }
                    }
                    Factor::N { ann, .. } => match t.next(8) {
                        0 => ann.clip = true,
                        1 => ann.member = Some(member_names[t.next(member_names.len())].to_string()),
                        2 => ann.utype = Some(user_types[t.next(user_types.len())].to_string()),
                        _ => {}
                    },
                    Factor::Group(x) | Factor::Opt(x) | Factor::Rep(x) => walk(x, t, member_names, user_types, state_names, false),
                }
            }
        }
        let _ = top;
    }
    for p in g.prods.iter_mut() {
        if p.lhs == "Prim" || p.lhs == "Skp" {
            continue;
        }
        walk(&mut p.alts, t, &member_names, &user_types, &state_names, true);
    }
    // every non-initial state needs at least one terminal (parol rejects empty states)
    for sn in state_names.iter().skip(1) {
        let used = {
            fn any_state(a: &Alts, sn: &str) -> bool {
                a.iter().flatten().any(|f| match f {
                    Factor::T { states, .. } => states.iter().any(|s| s == sn),
                    Factor::Group(x) | Factor::Opt(x) | Factor::Rep(x) => any_state(x, sn),
                    _ => false,
                })
            }
            g.prods.iter().any(|p| any_state(&p.alts, sn))
        };
        if !used {
            fn first_t<'a>(a: &'a mut Alts) -> Option<&'a mut Vec<String>> {
                for alt in a.iter_mut() {
                    for f in alt.iter_mut() {
                        match f {
                            Factor::T { states, .. } => return Some(states),
                            Factor::Group(x) | Factor::Opt(x) | Factor::Rep(x) => {
                                if let Some(s) = first_t(x) {
                                    return Some(s);
                                }
                            }
                            _ => {}
                        }
                    }
                }
                None
            }
            for p in g.prods.iter_mut() {
                if let Some(states) = first_t(&mut p.alts) {
                    if states.is_empty() {
                        states.push("INITIAL".into());
                    }
                    states.push(sn.clone());
                    break;
                }
            }
        }
    }
}

/// AST-control decoration for the compiled-code checks (C22/C23): clipping, member names and user
/// types on symbol occurrences, `%nt_type`, `%t_type`, `%user_type`.  User types name the types of
/// the generated crate's `types` module, which implement the conversions parol's book requires.
/// Smaller tape values = fewer annotations.
pub fn ast_annotate(g: &mut Grammar, t: &mut Tape) {
    let members = ["lhs", "rhs", "item", "op", "first", "rest", "value_1", "x", "m"];
    let utypes = ["crate::types::Num", "Alias", "crate::types::Tok"];
    let mut alias_used = false;
    if t.next(6) == 5 {
        g.t_type = Some("crate::types::Tok".to_string());
    }
    let nts = g.nts();
    for n in nts.iter().filter(|n| **n != g.start) {
        if t.next(8) == 7 {
            g.nt_types.push((n.clone(), "crate::types::Num".to_string()));
        }
    }
    fn walk(a: &mut Alts, t: &mut Tape, members: &[&str], utypes: &[&str], alias_used: &mut bool) {
        for alt in a.iter_mut() {
            for f in alt.iter_mut() {
                match f {
                    Factor::T { ann, .. } | Factor::N { ann, .. } => {
                        match t.next(12) {
                            0..=5 => {}
                            6 | 7 => ann.clip = true,
                            8 | 9 => ann.member = Some(members[t.next(members.len())].to_string()),
                            10 => ann.utype = Some(utypes[t.next(utypes.len())].to_string()),
                            _ => {
                                ann.member = Some(members[t.next(members.len())].to_string());
                                ann.utype = Some(utypes[t.next(utypes.len())].to_string());
                            }
                        }
                        if ann.utype.as_deref() == Some("Alias") {
                            *alias_used = true;
                        }
                    }
                    Factor::Group(x) | Factor::Opt(x) | Factor::Rep(x) => walk(x, t, members, utypes, alias_used),
                }
            }
        }
    }
    for p in g.prods.iter_mut() {
        walk(&mut p.alts, t, &members, &utypes, &mut alias_used);
    }
    if alias_used {
        g.user_types.push(("Alias".into(), "crate::types::Num".into()));
    }
}

impl Input {
    /// rendered text plus the byte span of every token
    pub fn render_spans(&self, terms: &[Term], comments: bool) -> (String, Vec<(usize, usize)>) {
        let mut s = String::new();
        let mut spans = vec![];
        let sep = |i: usize| -> &str {
            let k = self.seps.get(i).copied().unwrap_or(0) as usize % SEPS.len();
            let x = SEPS[k];
            if !comments && x.contains('/') { " " } else { x }
        };
        if self.seps.first().copied().unwrap_or(0) != 0 {
            s.push_str(sep(0));
        }
        for (i, t) in self.toks.iter().enumerate() {
            if i > 0 {
                s.push_str(sep(i));
            }
            let a = s.len();
            match t {
                InTok::T(k) => s.push_str(&terms[*k].sample),
                InTok::Foreign => s.push_str(FOREIGN),
            }
            spans.push((a, s.len()));
        }
        if self.seps.get(self.toks.len()).copied().unwrap_or(0) != 0 {
            s.push_str(sep(self.toks.len()));
        }
        (s, spans)
    }
}

/// Turns occurrences of one or two terminal texts into lookahead variants of the same text
/// (`'a' ?= /\s*b/`, `'a' ?! /\s*b/`, plain): same text and kind, different identity.  Which
/// variant the scanner reports depends on what follows in the input, so checks that use this
/// decoration must take the token sequence from the real scanner.
pub fn lookahead_variants(g: &mut Grammar, t: &mut Tape) {
    let terms = g.terms();
    if terms.len() < 2 {
        return;
    }
    let rounds = 1 + t.next(2);
    for _ in 0..rounds {
        let a = terms[t.next(terms.len())].lit.text.clone();
        let b = terms[t.next(terms.len())].lit.text.clone();
        let pat = format!("\\s*{}", regex::escape(&b).replace('/', "\\/"));
        fn walk(x: &mut Alts, a: &str, pat: &str, t: &mut Tape) {
            for alt in x.iter_mut() {
                for f in alt.iter_mut() {
                    match f {
                        Factor::T { term, .. } if term.lit.text == a && term.lookahead.is_none() => match t.next(4) {
                            0 | 1 => {}
                            2 => term.lookahead = Some((true, Lit { text: pat.to_string(), quote: Quote::Rx })),
                            _ => term.lookahead = Some((false, Lit { text: pat.to_string(), quote: Quote::Rx })),
                        },
                        Factor::Group(y) | Factor::Opt(y) | Factor::Rep(y) => walk(y, a, pat, t),
                        _ => {}
                    }
                }
            }
        }
        for p in g.prods.iter_mut() {
            walk(&mut p.alts, &a, &pat, t);
        }
    }
}

//! Reference FIRST_k / FOLLOW_k / strong-LL(k) decision, written from the definitions as least
//! fixpoints over explicit sets of terminal strings.  No parol code involved except for reading a
//! `Cfg` (names and terminal numbering).

use parol::{Cfg, Symbol, Terminal};
use std::collections::{BTreeMap, BTreeSet};

pub const EOI: u16 = 0;

#[derive(Clone, Debug, PartialEq, Eq, Hash)]
pub enum BSym {
    T(u16),
    N(usize),
}

#[derive(Clone, Debug)]
pub struct Bnf {
    /// alphabetical order = parol's non-terminal index order
    pub nts: Vec<String>,
    pub prods: Vec<(usize, Vec<BSym>)>,
    pub start: usize,
    /// terminal indices in use (>= 5), sorted
    pub terms: Vec<u16>,
}

pub type Set = BTreeSet<Vec<u16>>;

#[derive(Debug)]
pub struct TooBig;

impl Bnf {
    pub fn from_cfg(cfg: &Cfg) -> Bnf {
        let nts: Vec<String> = cfg.get_non_terminal_set().into_iter().collect();
        let ti = cfg.get_terminal_index_function();
        use parol::grammar::cfg::TerminalIndexFn;
        let mut terms = BTreeSet::new();
        let prods = cfg
            .pr
            .iter()
            .map(|p| {
                let lhs = nts.iter().position(|n| n == p.get_n_str()).unwrap();
                let rhs = p
                    .get_r()
                    .iter()
                    .filter_map(|s| match s {
                        Symbol::N(n, ..) => Some(BSym::N(nts.iter().position(|x| x == n).unwrap_or(usize::MAX))),
                        Symbol::T(Terminal::Trm(t, k, _, _, _, _, l)) => {
                            let i = ti.terminal_index(t, *k, l);
                            terms.insert(i);
                            Some(BSym::T(i))
                        }
                        _ => None,
                    })
                    .collect();
                (lhs, rhs)
            })
            .collect();
        let start = nts.iter().position(|n| n == cfg.get_start_symbol()).unwrap_or(0);
        Bnf { nts, prods, start, terms: terms.into_iter().collect() }
    }

    pub fn prods_of(&self, nt: usize) -> Vec<usize> {
        (0..self.prods.len()).filter(|p| self.prods[*p].0 == nt).collect()
    }
}

impl Bnf {
    /// identical (lhs, rhs) productions removed
    pub fn without_duplicates(&self) -> Bnf {
        let mut g = self.clone();
        let mut seen: Vec<(usize, Vec<BSym>)> = vec![];
        g.prods.retain(|p| {
            if seen.contains(p) {
                false
            } else {
                seen.push(p.clone());
                true
            }
        });
        g
    }

    /// a non-terminal derives itself (A =>+ A): the grammar is infinitely ambiguous
    pub fn is_cyclic(&self) -> bool {
        let n = self.nts.len();
        // nullable
        let mut nullable = vec![false; n];
        loop {
            let mut ch = false;
            for (l, r) in &self.prods {
                if !nullable[*l] && r.iter().all(|s| matches!(s, BSym::N(x) if *x < n && nullable[*x])) {
                    nullable[*l] = true;
                    ch = true;
                }
            }
            if !ch {
                break;
            }
        }
        // unit relation A -> B when A: alpha B beta with alpha, beta nullable
        let mut rel = vec![vec![false; n]; n];
        for (l, r) in &self.prods {
            for (i, s) in r.iter().enumerate() {
                if let BSym::N(b) = s {
                    if *b >= n {
                        continue;
                    }
                    let rest_nullable = r.iter().enumerate().all(|(j, t)| j == i || matches!(t, BSym::N(x) if *x < n && nullable[*x]));
                    if rest_nullable {
                        rel[*l][*b] = true;
                    }
                }
            }
        }
        for k in 0..n {
            for i in 0..n {
                for j in 0..n {
                    if rel[i][k] && rel[k][j] {
                        rel[i][j] = true;
                    }
                }
            }
        }
        (0..n).any(|i| rel[i][i])
    }
}

/// k-truncated concatenation; strings ending in EOI are closed and cannot be extended
pub fn kconcat(a: &Set, b: &Set, k: usize, budget: &mut i64) -> Result<Set, TooBig> {
    let mut r = Set::new();
    for x in a {
        if x.len() >= k || x.last() == Some(&EOI) {
            let mut x = x.clone();
            x.truncate(k);
            r.insert(x);
            *budget -= 1;
            continue;
        }
        for y in b {
            let mut z = x.clone();
            z.extend_from_slice(y);
            z.truncate(k);
            r.insert(z);
            *budget -= 1;
        }
        if *budget < 0 {
            return Err(TooBig);
        }
    }
    if *budget < 0 {
        return Err(TooBig);
    }
    Ok(r)
}

fn first_of_seq(g: &Bnf, seq: &[BSym], fnt: &[Set], k: usize, budget: &mut i64) -> Result<Set, TooBig> {
    let _ = g;
    let mut cur: Set = [vec![]].into_iter().collect();
    for s in seq {
        let f: Set = match s {
            BSym::T(t) => [vec![*t]].into_iter().collect(),
            BSym::N(n) => fnt.get(*n).cloned().unwrap_or_default(),
        };
        cur = kconcat(&cur, &f, k, budget)?;
        if cur.is_empty() {
            break;
        }
        if cur.iter().all(|x| x.len() >= k) {
            // every string is already k long; the rest cannot contribute (but an empty FIRST of a
            // later symbol would still make the whole set empty: non-productive symbols are
            // excluded by the domain)
            let rest_productive = true;
            if rest_productive {
                // keep scanning only to detect emptiness
                continue;
            }
        }
    }
    Ok(cur)
}

/// FIRST_k of every production and every non-terminal (least fixpoint from the empty sets)
pub fn first_k(g: &Bnf, k: usize, budget: &mut i64) -> Result<(Vec<Set>, Vec<Set>), TooBig> {
    let mut fnt: Vec<Set> = vec![Set::new(); g.nts.len()];
    loop {
        let mut changed = false;
        for (lhs, rhs) in &g.prods {
            let f = first_of_seq(g, rhs, &fnt, k, budget)?;
            let before = fnt[*lhs].len();
            fnt[*lhs].extend(f);
            if fnt[*lhs].len() != before {
                changed = true;
            }
        }
        if !changed {
            break;
        }
    }
    let mut fp = vec![];
    for (_, rhs) in &g.prods {
        fp.push(first_of_seq(g, rhs, &fnt, k, budget)?);
    }
    Ok((fp, fnt))
}

/// FOLLOW_k of every non-terminal; end of input (a single EOI, after which nothing follows) is in
/// FOLLOW of the start symbol
pub fn follow_k(g: &Bnf, k: usize, fnt: &[Set], budget: &mut i64) -> Result<Vec<Set>, TooBig> {
    let mut fo: Vec<Set> = vec![Set::new(); g.nts.len()];
    fo[g.start].insert(vec![EOI]);
    loop {
        let mut changed = false;
        for (lhs, rhs) in &g.prods {
            for (i, s) in rhs.iter().enumerate() {
                if let BSym::N(n) = s {
                    if *n == usize::MAX {
                        continue;
                    }
                    let beta = first_of_seq(g, &rhs[i + 1..], fnt, k, budget)?;
                    let add = kconcat(&beta, &fo[*lhs], k, budget)?;
                    let before = fo[*n].len();
                    fo[*n].extend(add);
                    if fo[*n].len() != before {
                        changed = true;
                    }
                }
            }
        }
        if !changed {
            break;
        }
    }
    Ok(fo)
}

/// per production: FIRST_k(rhs) (+)_k FOLLOW_k(lhs)
pub fn la_sets(g: &Bnf, k: usize, budget: &mut i64) -> Result<Vec<Set>, TooBig> {
    let (fp, fnt) = first_k(g, k, budget)?;
    let fo = follow_k(g, k, &fnt, budget)?;
    let mut r = vec![];
    for (p, (lhs, _)) in g.prods.iter().enumerate() {
        r.push(kconcat(&fp[p], &fo[*lhs], k, budget)?);
    }
    Ok(r)
}

pub struct Decision {
    /// minimal k per non-terminal (None = not decidable up to K)
    pub k_of: Vec<Option<usize>>,
    /// la sets per k (1..=K) per production, computed lazily up to the largest k needed
    pub la: BTreeMap<usize, Vec<Set>>,
}

pub fn disjoint(a: &Set, b: &Set) -> bool {
    if a.len() > b.len() {
        return disjoint(b, a);
    }
    !a.iter().any(|x| b.contains(x))
}

/// strong-LL(k) decision for every non-terminal with limit K
pub fn decide(g: &Bnf, max_k: usize, budget: &mut i64) -> Result<Decision, TooBig> {
    let mut k_of: Vec<Option<usize>> = vec![None; g.nts.len()];
    let mut la = BTreeMap::new();
    let mut open: Vec<usize> = vec![];
    for nt in 0..g.nts.len() {
        if g.prods_of(nt).len() <= 1 {
            k_of[nt] = Some(0);
        } else {
            open.push(nt);
        }
    }
    let mut k = 1;
    while !open.is_empty() && k <= max_k {
        let sets = la_sets(g, k, budget)?;
        open.retain(|nt| {
            let ps = g.prods_of(*nt);
            let ok = ps.iter().all(|p| ps.iter().all(|q| p == q || disjoint(&sets[*p], &sets[*q])));
            if ok {
                k_of[*nt] = Some(k);
            }
            !ok
        });
        la.insert(k, sets);
        k += 1;
    }
    Ok(Decision { k_of, la })
}

#[cfg(test)]
mod tests {
    use super::*;

    fn g() -> Bnf {
        // S: A 'b'(6); A: B | C; B: 'a'(5); C: 'a' 'b';   (A needs k=3)
        Bnf {
            nts: vec!["A".into(), "B".into(), "C".into(), "S".into()],
            prods: vec![
                (3, vec![BSym::N(0), BSym::T(6)]),
                (0, vec![BSym::N(1)]),
                (0, vec![BSym::N(2)]),
                (1, vec![BSym::T(5)]),
                (2, vec![BSym::T(5), BSym::T(6)]),
            ],
            start: 3,
            terms: vec![5, 6],
        }
    }

    #[test]
    fn textbook() {
        let g = g();
        let mut b = 1_000_000;
        let (fp, fnt) = first_k(&g, 2, &mut b).unwrap();
        assert_eq!(fnt[3], [vec![5, 6]].into_iter().collect());
        assert_eq!(fp[4], [vec![5, 6]].into_iter().collect());
        let fo = follow_k(&g, 2, &fnt, &mut b).unwrap();
        assert_eq!(fo[0], [vec![6, 0]].into_iter().collect());
        assert_eq!(fo[3], [vec![0]].into_iter().collect());
        let d = decide(&g, 5, &mut b).unwrap();
        assert_eq!(d.k_of, vec![Some(3), Some(0), Some(0), Some(0)]);
        let d = decide(&g, 2, &mut b).unwrap();
        assert_eq!(d.k_of[0], None);
    }
}

//! Loads a parol-generated `*_parser.rs` *text* into runnable tables without rustc:
//! the consts are read with `syn`, the `scanner!{}` macro tokens go through the same
//! `scnr2_generate` pipeline the proc-macro uses.

use crate::util::{leak_slice, leak_str};
use parol_runtime::lr_parser::{LR1State, LRAction, LRParseTable, LRProduction};
use parol_runtime::parser::{LookaheadDFA, ParseType, Production, Trans};
use scnr2_generate::character_classes::CharacterClasses;
use scnr2_generate::dfa::Dfa as GDfa;
use scnr2_generate::nfa::Nfa;
use scnr2_generate::pattern::{AutomatonType, Lookahead as GLookahead};
use scnr2_generate::scanner_data::{ScannerData, TransitionToNumericMode};
use std::collections::BTreeMap;

#[derive(Debug, Clone, PartialEq)]
pub enum Val {
    Int(i64),
    Str(String),
    Bool(bool),
    Arr(Vec<Val>),
    Struct(String, BTreeMap<String, Val>),
    Call(String, Vec<Val>),
    Tuple(Vec<Val>),
    Path(String),
}

impl Val {
    pub fn int(&self) -> Result<i64, String> {
        match self {
            Val::Int(i) => Ok(*i),
            v => Err(format!("expected int, got {v:?}")),
        }
    }
    pub fn arr(&self) -> Result<&Vec<Val>, String> {
        match self {
            Val::Arr(a) => Ok(a),
            v => Err(format!("expected array, got {v:?}")),
        }
    }
    pub fn field(&self, f: &str) -> Result<&Val, String> {
        match self {
            Val::Struct(_, m) => m.get(f).ok_or_else(|| format!("missing field {f}")),
            v => Err(format!("expected struct with {f}, got {v:?}")),
        }
    }
    pub fn str(&self) -> Result<&str, String> {
        match self {
            Val::Str(s) => Ok(s),
            v => Err(format!("expected string, got {v:?}")),
        }
    }
    pub fn boolean(&self) -> Result<bool, String> {
        match self {
            Val::Bool(b) => Ok(*b),
            v => Err(format!("expected bool, got {v:?}")),
        }
    }
}

fn path_str(p: &syn::Path) -> String {
    p.segments.iter().map(|s| s.ident.to_string()).collect::<Vec<_>>().join("::")
}

pub fn eval(e: &syn::Expr) -> Result<Val, String> {
    use syn::Expr;
    Ok(match e {
        Expr::Lit(l) => match &l.lit {
            syn::Lit::Int(i) => Val::Int(i.base10_parse::<i64>().map_err(|e| e.to_string())?),
            syn::Lit::Str(s) => Val::Str(s.value()),
            syn::Lit::Bool(b) => Val::Bool(b.value),
            l => return Err(format!("unsupported literal {l:?}")),
        },
        Expr::Unary(u) => match u.op {
            syn::UnOp::Neg(_) => Val::Int(-eval(&u.expr)?.int()?),
            _ => return Err("unsupported unary".into()),
        },
        Expr::Reference(r) => eval(&r.expr)?,
        Expr::Paren(p) => eval(&p.expr)?,
        Expr::Group(p) => eval(&p.expr)?,
        Expr::Array(a) => Val::Arr(a.elems.iter().map(eval).collect::<Result<_, _>>()?),
        Expr::Tuple(t) => Val::Tuple(t.elems.iter().map(eval).collect::<Result<_, _>>()?),
        Expr::Struct(s) => {
            let mut m = BTreeMap::new();
            for f in &s.fields {
                let name = match &f.member {
                    syn::Member::Named(i) => i.to_string(),
                    syn::Member::Unnamed(i) => i.index.to_string(),
                };
                m.insert(name, eval(&f.expr)?);
            }
            Val::Struct(path_str(&s.path), m)
        }
        Expr::Call(c) => {
            let name = match &*c.func {
                Expr::Path(p) => path_str(&p.path),
                _ => return Err("unsupported call".into()),
            };
            Val::Call(name, c.args.iter().map(eval).collect::<Result<_, _>>()?)
        }
        Expr::Path(p) => Val::Path(path_str(&p.path)),
        e => return Err(format!("unsupported expression {}", quote::quote!(#e))),
    })
}

#[derive(Debug, Clone, PartialEq, Eq)]
pub struct LaDfa {
    pub prod0: i32,
    /// (from, term, to, prod)
    pub transitions: Vec<(usize, u16, usize, i32)>,
    pub k: usize,
}

#[derive(Debug, Clone, PartialEq, Eq)]
pub enum Sym {
    N(usize),
    T(u16),
}

#[derive(Debug, Clone, PartialEq, Eq)]
pub struct LlProd {
    pub lhs: usize,
    /// in reading order (the generated table stores it reversed)
    pub rhs: Vec<Sym>,
    pub push: bool,
}

#[derive(Debug, Clone, PartialEq, Eq)]
pub struct LrProd {
    pub lhs: usize,
    pub len: usize,
    pub push: bool,
}

#[derive(Debug, Clone, PartialEq, Eq)]
pub enum LrAct {
    Shift(usize),
    Reduce(usize, usize),
    Accept,
}

#[derive(Debug, Clone, PartialEq, Eq)]
pub struct LrState {
    pub actions: Vec<(u16, usize)>,
    pub gotos: Vec<(usize, usize)>,
}

#[derive(Debug, Clone, PartialEq, Eq)]
pub struct ModeText {
    pub name: String,
    /// (pattern, terminal index, lookahead (is_positive, pattern))
    pub tokens: Vec<(String, usize, Option<(bool, String)>)>,
    /// (terminal index, kind, target mode name)
    pub transitions: Vec<(usize, String, Option<String>)>,
}

/// Everything readable from the generated source text
#[derive(Debug, Clone)]
pub struct Tables {
    pub terminal_names: Vec<String>,
    pub non_terminals: Vec<String>,
    pub max_k: Option<usize>,
    pub skip_by_state: Vec<Vec<u16>>,
    pub start_index: usize,
    pub ll: Option<(Vec<LaDfa>, Vec<LlProd>)>,
    pub lr: Option<(Vec<LrAct>, Vec<LrState>, Vec<LrProd>)>,
    pub scanner_name: String,
    pub modes: Vec<ModeText>,
    pub scanner_tokens: proc_macro2::TokenStream,
    pub trim: bool,
    pub recovery_disabled: bool,
    pub max_depth: Option<usize>,
}

/// Token-level search in the generated file: the first literal argument of `<path…> name ( … )`
fn flatten(ts: proc_macro2::TokenStream, out: &mut Vec<proc_macro2::TokenTree>) {
    for t in ts {
        if let proc_macro2::TokenTree::Group(g) = &t {
            out.push(t.clone());
            flatten(g.stream(), out);
        } else {
            out.push(t);
        }
    }
}

/// finds `name ( <int> …` and returns the int; with `name ( )` returns Some(None)
fn find_call(flat: &[proc_macro2::TokenTree], name: &str) -> Option<Option<usize>> {
    use proc_macro2::TokenTree as TT;
    for w in flat.windows(2) {
        if let (TT::Ident(i), TT::Group(g)) = (&w[0], &w[1]) {
            if i == name && g.delimiter() == proc_macro2::Delimiter::Parenthesis {
                let first = g.stream().into_iter().next();
                return Some(first.and_then(|t| lit_int(&t).ok()));
            }
        }
    }
    None
}

/// Parses the macro token text into `ModeText`s (own reader, independent of scnr2_generate)
fn read_modes(tokens: &proc_macro2::TokenStream) -> Result<(String, Vec<ModeText>), String> {
    use proc_macro2::TokenTree as TT;
    let v: Vec<TT> = tokens.clone().into_iter().collect();
    let name = match v.first() {
        Some(TT::Ident(i)) => i.to_string(),
        _ => return Err("scanner name expected".into()),
    };
    let body = match v.get(1) {
        Some(TT::Group(g)) => g.stream(),
        _ => return Err("scanner body expected".into()),
    };
    let b: Vec<TT> = body.into_iter().collect();
    let mut modes = vec![];
    let mut i = 0;
    while i < b.len() {
        match (&b[i], b.get(i + 1), b.get(i + 2)) {
            (TT::Ident(m), Some(TT::Ident(n)), Some(TT::Group(g))) if m == "mode" => {
                let mut mode = ModeText { name: n.to_string(), tokens: vec![], transitions: vec![] };
                // split at ';'
                let mut stmt: Vec<TT> = vec![];
                for t in g.stream() {
                    if matches!(&t, TT::Punct(p) if p.as_char() == ';') {
                        read_stmt(&stmt, &mut mode)?;
                        stmt.clear();
                    } else {
                        stmt.push(t);
                    }
                }
                if !stmt.is_empty() {
                    return Err("dangling tokens in mode".into());
                }
                modes.push(mode);
                i += 3;
            }
            _ => return Err(format!("unexpected token in scanner body: {}", b[i])),
        }
    }
    Ok((name, modes))
}

fn lit_str(t: &proc_macro2::TokenTree) -> Result<String, String> {
    let l: syn::LitStr = syn::parse2(std::iter::once(t.clone()).collect()).map_err(|e| e.to_string())?;
    Ok(l.value())
}

fn lit_int(t: &proc_macro2::TokenTree) -> Result<usize, String> {
    let l: syn::LitInt = syn::parse2(std::iter::once(t.clone()).collect()).map_err(|e| e.to_string())?;
    l.base10_parse::<usize>().map_err(|e| e.to_string())
}

fn read_stmt(s: &[proc_macro2::TokenTree], mode: &mut ModeText) -> Result<(), String> {
    let words: Vec<String> = s.iter().map(|t| t.to_string()).collect();
    match words.first().map(|s| s.as_str()) {
        Some("token") => {
            let pat = lit_str(&s[1])?;
            // forms: token P => N | token P followed by Q => N | token P not followed by Q => N
            let (la, idx_pos) = if words.get(2).map(|s| s.as_str()) == Some("followed") {
                (Some((true, lit_str(&s[4])?)), 7)
            } else if words.get(2).map(|s| s.as_str()) == Some("not") {
                (Some((false, lit_str(&s[5])?)), 8)
            } else {
                (None, 4)
            };
            let idx = lit_int(s.get(idx_pos).ok_or("token index missing")?)?;
            mode.tokens.push((pat, idx, la));
        }
        Some("on") => {
            let idx = lit_int(&s[1])?;
            let kind = words[2].clone();
            let target = words.get(3).cloned();
            mode.transitions.push((idx, kind, target));
        }
        w => return Err(format!("unexpected statement {w:?}")),
    }
    Ok(())
}

pub fn read_tables(src: &str) -> Result<Tables, String> {
    let file = syn::parse_file(src).map_err(|e| format!("generated source does not parse: {e}"))?;
    let mut flat = vec![];
    for item in &file.items {
        if let syn::Item::Fn(f) = item {
            flatten(quote::ToTokens::to_token_stream(&f.block), &mut flat);
        }
    }
    let mut consts: BTreeMap<String, Val> = BTreeMap::new();
    let mut scanner_tokens = None;
    for item in &file.items {
        match item {
            syn::Item::Const(c) => {
                consts.insert(c.ident.to_string(), eval(&c.expr).map_err(|e| format!("{}: {e}", c.ident))?);
            }
            syn::Item::Static(c) => {
                consts.insert(c.ident.to_string(), eval(&c.expr).map_err(|e| format!("{}: {e}", c.ident))?);
            }
            syn::Item::Macro(m) if path_str(&m.mac.path).ends_with("scanner") => {
                scanner_tokens = Some(m.mac.tokens.clone());
            }
            _ => {}
        }
    }
    let scanner_tokens = scanner_tokens.ok_or("no scanner! macro in generated source")?;
    let (scanner_name, modes) = read_modes(&scanner_tokens)?;
    let get = |n: &str| consts.get(n).ok_or_else(|| format!("const {n} missing"));
    let strs = |v: &Val| -> Result<Vec<String>, String> {
        v.arr()?.iter().map(|s| s.str().map(|s| s.to_string())).collect()
    };
    let terminal_names = strs(get("TERMINAL_NAMES")?)?;
    let non_terminals = strs(get("NON_TERMINALS")?)?;
    let skip_by_state = get("SKIP_TOKENS_BY_SCANNER_STATE")?
        .arr()?
        .iter()
        .map(|r| r.arr()?.iter().map(|i| i.int().map(|i| i as u16)).collect::<Result<Vec<u16>, String>>())
        .collect::<Result<Vec<_>, String>>()?;
    let max_k = consts.get("MAX_K").map(|v| v.int().map(|i| i as usize)).transpose()?;
    let mut ll = None;
    let mut lr = None;
    let start_index;
    if let Some(la) = consts.get("LOOKAHEAD_AUTOMATA") {
        let dfas = la
            .arr()?
            .iter()
            .map(|d| {
                let transitions = d
                    .field("transitions")?
                    .arr()?
                    .iter()
                    .map(|t| match t {
                        Val::Call(n, a) if n == "Trans" && a.len() == 4 => Ok((
                            a[0].int()? as usize,
                            a[1].int()? as u16,
                            a[2].int()? as usize,
                            a[3].int()? as i32,
                        )),
                        v => Err(format!("bad transition {v:?}")),
                    })
                    .collect::<Result<Vec<_>, String>>()?;
                Ok(LaDfa {
                    prod0: d.field("prod0")?.int()? as i32,
                    transitions,
                    k: d.field("k")?.int()? as usize,
                })
            })
            .collect::<Result<Vec<_>, String>>()?;
        let prods = get("PRODUCTIONS")?
            .arr()?
            .iter()
            .map(|p| {
                let mut rhs = p
                    .field("production")?
                    .arr()?
                    .iter()
                    .map(|s| match s {
                        Val::Call(n, a) if n == "ParseType::N" => Ok(Sym::N(a[0].int()? as usize)),
                        Val::Call(n, a) if n == "ParseType::T" => Ok(Sym::T(a[0].int()? as u16)),
                        v => Err(format!("bad parse type {v:?}")),
                    })
                    .collect::<Result<Vec<_>, String>>()?;
                rhs.reverse();
                Ok(LlProd {
                    lhs: p.field("lhs")?.int()? as usize,
                    rhs,
                    push: p.field("is_push_production")?.boolean()?,
                })
            })
            .collect::<Result<Vec<_>, String>>()?;
        ll = Some((dfas, prods));
        start_index = find_call(&flat, "new").flatten().ok_or("start index not found")?;
    } else {
        let pt = get("PARSE_TABLE")?;
        let actions = pt
            .field("actions")?
            .arr()?
            .iter()
            .map(|a| match a {
                Val::Call(n, a) if n == "LRAction::Shift" => Ok(LrAct::Shift(a[0].int()? as usize)),
                Val::Call(n, a) if n == "LRAction::Reduce" => {
                    Ok(LrAct::Reduce(a[0].int()? as usize, a[1].int()? as usize))
                }
                Val::Path(n) if n == "LRAction::Accept" => Ok(LrAct::Accept),
                v => Err(format!("bad action {v:?}")),
            })
            .collect::<Result<Vec<_>, String>>()?;
        let pair = |v: &Val| -> Result<(i64, i64), String> {
            match v {
                Val::Tuple(t) if t.len() == 2 => Ok((t[0].int()?, t[1].int()?)),
                v => Err(format!("bad pair {v:?}")),
            }
        };
        let states = pt
            .field("states")?
            .arr()?
            .iter()
            .map(|s| {
                Ok(LrState {
                    actions: s
                        .field("actions")?
                        .arr()?
                        .iter()
                        .map(|p| pair(p).map(|(a, b)| (a as u16, b as usize)))
                        .collect::<Result<_, String>>()?,
                    gotos: s
                        .field("gotos")?
                        .arr()?
                        .iter()
                        .map(|p| pair(p).map(|(a, b)| (a as usize, b as usize)))
                        .collect::<Result<_, String>>()?,
                })
            })
            .collect::<Result<Vec<_>, String>>()?;
        let prods = get("PRODUCTIONS")?
            .arr()?
            .iter()
            .map(|p| {
                Ok(LrProd {
                    lhs: p.field("lhs")?.int()? as usize,
                    len: p.field("len")?.int()? as usize,
                    push: p.field("is_push_production")?.boolean()?,
                })
            })
            .collect::<Result<Vec<_>, String>>()?;
        lr = Some((actions, states, prods));
        start_index = find_call(&flat, "new").flatten().ok_or("start index not found")?;
    }
    Ok(Tables {
        terminal_names,
        non_terminals,
        max_k,
        skip_by_state,
        start_index,
        ll,
        lr,
        scanner_name,
        modes,
        scanner_tokens,
        trim: find_call(&flat, "trim_parse_tree").is_some(),
        recovery_disabled: find_call(&flat, "disable_recovery").is_some(),
        max_depth: find_call(&flat, "set_max_parsing_depth").flatten(),
    })
}

/// A scanner built at run time exactly as the `scanner!` macro would build it
pub type DynMatch = &'static (dyn Fn(char) -> Option<usize> + Sync);

pub struct RtScanner {
    pub modes: &'static [scnr2::ScannerMode],
    pub classes: &'static MatchFn,
    /// in the shape `TokenStream::new_with_skip_tokens` wants: `&'static F`, F: Fn + Clone
    pub match_fn: &'static DynMatch,
}

#[derive(Clone)]
pub struct MatchFn {
    /// sorted (start, end, class)
    intervals: &'static [(char, char, usize)],
}

impl MatchFn {
    pub fn class_of(&self, c: char) -> Option<usize> {
        self.intervals
            .binary_search_by(|(s, e, _)| {
                if c < *s {
                    std::cmp::Ordering::Greater
                } else if c > *e {
                    std::cmp::Ordering::Less
                } else {
                    std::cmp::Ordering::Equal
                }
            })
            .ok()
            .map(|i| self.intervals[i].2)
    }
}

fn conv_dfa(d: &GDfa, ncc: usize) -> Result<scnr2::Dfa, String> {
    let mut states = Vec::with_capacity(d.states.len());
    for s in &d.states {
        let mut tr: Vec<Option<scnr2::DfaTransition>> = vec![None; ncc];
        for t in &s.transitions {
            tr[t.elementary_interval_index.as_usize()] = Some(scnr2::DfaTransition { to: t.target.as_usize() });
        }
        let mut acc = Vec::with_capacity(s.accept_data.len());
        for a in &s.accept_data {
            let la = match &a.lookahead {
                GLookahead::None => scnr2::Lookahead::None,
                GLookahead::Positive(AutomatonType::Dfa(d)) => scnr2::Lookahead::Positive(conv_dfa(d, ncc)?),
                GLookahead::Negative(AutomatonType::Dfa(d)) => scnr2::Lookahead::Negative(conv_dfa(d, ncc)?),
                _ => return Err("lookahead not converted to DFA".into()),
            };
            acc.push(scnr2::AcceptData {
                token_type: a.terminal_type.as_usize(),
                priority: a.priority,
                lookahead: la,
            });
        }
        states.push(scnr2::DfaState { transitions: leak_slice(tr), accept_data: leak_slice(acc) });
    }
    Ok(scnr2::Dfa { states: leak_slice(states) })
}

/// Mirrors scnr2_generate::generate::generate, but produces values instead of tokens.
/// scnr2_generate panics (expect) on invalid regexes; the caller wraps this in `guard`.
pub fn build_scanner(tokens: proc_macro2::TokenStream) -> Result<RtScanner, String> {
    let data: ScannerData = syn::parse2(tokens).map_err(|e| format!("scanner macro parse: {e}"))?;
    let modes = data.build_scanner_modes().map_err(|e| format!("build modes: {e}"))?;
    let mut nfas = modes
        .iter()
        .map(|m| Nfa::build_from_patterns(&m.patterns).map_err(|e| format!("nfa: {e}")))
        .collect::<Result<Vec<_>, String>>()?;
    let mut cc = CharacterClasses::new();
    for n in &nfas {
        n.collect_character_classes(&mut cc);
    }
    cc.create_disjoint_character_classes();
    for n in &mut nfas {
        n.convert_to_disjoint_character_classes(&cc);
    }
    let dfas = nfas
        .iter()
        .map(|n| GDfa::try_from(n).map_err(|e| format!("dfa: {e}")))
        .collect::<Result<Vec<_>, String>>()?;
    let ncc = cc.intervals.len();
    let mut rt_modes = vec![];
    for (i, m) in modes.iter().enumerate() {
        let tr: Vec<scnr2::Transition> = m
            .transitions
            .iter()
            .map(|t| match t {
                TransitionToNumericMode::SetMode(a, b) => scnr2::Transition::SetMode(*a, *b),
                TransitionToNumericMode::PushMode(a, b) => scnr2::Transition::PushMode(*a, *b),
                TransitionToNumericMode::PopMode(a) => scnr2::Transition::PopMode(*a),
            })
            .collect();
        rt_modes.push(scnr2::ScannerMode {
            name: leak_str(&m.name),
            transitions: leak_slice(tr),
            dfa: conv_dfa(&dfas[i], ncc)?,
        });
    }
    // elementary intervals -> class id (the generated match function's table)
    let mut iv: Vec<(char, char, usize)> = vec![];
    for e in &cc.elementary_intervals {
        let id = cc
            .intervals
            .iter()
            .position(|g| g.contains(e))
            .ok_or("elementary interval without group")?;
        iv.push((*e.start(), *e.end(), id));
    }
    iv.sort();
    let mf: &'static MatchFn = Box::leak(Box::new(MatchFn { intervals: leak_slice(iv) }));
    let f: DynMatch = Box::leak(Box::new(move |c: char| mf.class_of(c)));
    let match_fn: &'static DynMatch = Box::leak(Box::new(f));
    Ok(RtScanner { modes: leak_slice(rt_modes), classes: mf, match_fn })
}

/// Runtime tables in the shape the runtime expects (all leaked to 'static)
pub struct Loaded {
    pub tables: Tables,
    pub scanner: RtScanner,
    pub terminal_names: &'static [&'static str],
    pub non_terminals: &'static [&'static str],
    pub skip_by_state: &'static [&'static [u16]],
    pub ll: Option<(&'static [LookaheadDFA], &'static [Production])>,
    pub lr: Option<(&'static LRParseTable, &'static [LRProduction])>,
}

pub fn load(src: &str) -> Result<Loaded, String> {
    let tables = read_tables(src)?;
    let scanner = build_scanner(tables.scanner_tokens.clone())?;
    let terminal_names: &'static [&'static str] =
        leak_slice(tables.terminal_names.iter().map(|s| leak_str(s)).collect());
    let non_terminals: &'static [&'static str] =
        leak_slice(tables.non_terminals.iter().map(|s| leak_str(s)).collect());
    let skip_by_state: &'static [&'static [u16]] =
        leak_slice(tables.skip_by_state.iter().map(|v| leak_slice(v.clone())).collect());
    let ll = tables.ll.as_ref().map(|(dfas, prods)| {
        let d: Vec<LookaheadDFA> = dfas
            .iter()
            .map(|d| LookaheadDFA {
                prod0: d.prod0,
                transitions: leak_slice(d.transitions.iter().map(|t| Trans(t.0, t.1, t.2, t.3)).collect()),
                k: d.k,
            })
            .collect();
        let p: Vec<Production> = prods
            .iter()
            .map(|p| Production {
                lhs: p.lhs,
                production: leak_slice(
                    p.rhs
                        .iter()
                        .rev()
                        .map(|s| match s {
                            Sym::N(n) => ParseType::N(*n),
                            Sym::T(t) => ParseType::T(*t),
                        })
                        .collect(),
                ),
                is_push_production: p.push,
            })
            .collect();
        (leak_slice(d), leak_slice(p))
    });
    let lr = tables.lr.as_ref().map(|(actions, states, prods)| {
        let a: Vec<LRAction> = actions
            .iter()
            .map(|a| match a {
                LrAct::Shift(s) => LRAction::Shift(*s),
                LrAct::Reduce(n, p) => LRAction::Reduce(*n, *p),
                LrAct::Accept => LRAction::Accept,
            })
            .collect();
        let s: Vec<LR1State> = states
            .iter()
            .map(|s| LR1State { actions: leak_slice(s.actions.clone()), gotos: leak_slice(s.gotos.clone()) })
            .collect();
        let t: &'static LRParseTable =
            Box::leak(Box::new(LRParseTable { actions: leak_slice(a), states: leak_slice(s) }));
        let p: Vec<LRProduction> = prods
            .iter()
            .map(|p| LRProduction { lhs: p.lhs, len: p.len, is_push_production: p.push })
            .collect();
        (t, leak_slice(p))
    });
    Ok(Loaded { tables, scanner, terminal_names, non_terminals, skip_by_state, ll, lr })
}

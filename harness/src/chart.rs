//! Reference recogniser and language enumerator for EBNF grammars, written from the
//! textbook definitions (least fixpoints).  Shares no code with parol.

use crate::ast::*;
use std::collections::BTreeSet;

/// `ends[nt][i]` = bit set of all j with nt =>* w[i..j]
pub struct Chart<'g> {
    g: &'g IGrammar,
    w: Vec<usize>,
    ends: Vec<Vec<u64>>,
}

impl<'g> Chart<'g> {
    /// w: token sequence as terminal indices; usize::MAX stands for a foreign token
    pub fn new(g: &'g IGrammar, w: &[usize]) -> Self {
        assert!(w.len() < 63);
        let n = w.len();
        let mut c = Chart { g, w: w.to_vec(), ends: vec![vec![0u64; n + 1]; g.nts.len()] };
        loop {
            let mut changed = false;
            for nt in 0..g.nts.len() {
                for i in 0..=n {
                    let e = c.ends_alts(&g.rules[nt], 1u64 << i);
                    if e | c.ends[nt][i] != c.ends[nt][i] {
                        c.ends[nt][i] |= e;
                        changed = true;
                    }
                }
            }
            if !changed {
                break;
            }
        }
        c
    }

    fn ends_alts(&self, a: &IAlts, from: u64) -> u64 {
        let mut r = 0u64;
        for alt in a {
            r |= self.ends_alt(alt, from);
        }
        r
    }

    fn ends_alt(&self, alt: &IAlt, from: u64) -> u64 {
        let mut cur = from;
        for f in alt {
            if cur == 0 {
                break;
            }
            cur = self.ends_factor(f, cur);
        }
        cur
    }

    fn ends_factor(&self, f: &IFactor, from: u64) -> u64 {
        let n = self.w.len();
        match f {
            IFactor::T(t) => {
                let mut r = 0u64;
                for i in 0..n {
                    if from & (1 << i) != 0 && self.w[i] == *t {
                        r |= 1 << (i + 1);
                    }
                }
                r
            }
            IFactor::N(nt) => {
                let mut r = 0u64;
                for i in 0..=n {
                    if from & (1 << i) != 0 {
                        r |= self.ends[*nt][i];
                    }
                }
                r
            }
            IFactor::Group(a) => self.ends_alts(a, from),
            IFactor::Opt(a) => from | self.ends_alts(a, from),
            IFactor::Rep(a) => {
                let mut s = from;
                loop {
                    let n2 = s | self.ends_alts(a, s);
                    if n2 == s {
                        break;
                    }
                    s = n2;
                }
                s
            }
        }
    }

    pub fn accepts(&self) -> bool {
        if self.g.start == usize::MAX {
            return false;
        }
        self.ends[self.g.start][0] & (1u64 << self.w.len()) != 0
    }

    pub fn derives(&self, nt: usize, i: usize, j: usize) -> bool {
        self.ends[nt][i] & (1u64 << j) != 0
    }
}

pub fn member(g: &IGrammar, w: &[usize]) -> bool {
    Chart::new(g, w).accepts()
}

pub type Lang = BTreeSet<Vec<u8>>;

/// All sentences of length <= l of every non-terminal, as a least fixpoint over sets of strings.
/// Returns None when a set grows beyond `cap` strings.
pub fn langs_upto(g: &IGrammar, l: usize, cap: usize) -> Option<Vec<Lang>> {
    let mut langs: Vec<Lang> = vec![Lang::new(); g.nts.len()];
    loop {
        let mut changed = false;
        for nt in 0..g.nts.len() {
            let new = lang_alts(&g.rules[nt], &langs, l, cap)?;
            if new.len() != langs[nt].len() {
                // monotone: new ⊇ old
                langs[nt] = new;
                changed = true;
            }
        }
        if !changed {
            break;
        }
    }
    Some(langs)
}

pub fn lang_upto(g: &IGrammar, l: usize, cap: usize) -> Option<Lang> {
    if g.start == usize::MAX {
        return Some(Lang::new());
    }
    langs_upto(g, l, cap).map(|mut v| std::mem::take(&mut v[g.start]))
}

fn concat(a: &Lang, b: &Lang, l: usize, cap: usize) -> Option<Lang> {
    let mut r = Lang::new();
    for x in a {
        for y in b {
            if x.len() + y.len() <= l {
                let mut z = x.clone();
                z.extend_from_slice(y);
                r.insert(z);
                if r.len() > cap {
                    return None;
                }
            }
        }
    }
    Some(r)
}

fn lang_alts(a: &IAlts, langs: &[Lang], l: usize, cap: usize) -> Option<Lang> {
    let mut r = Lang::new();
    for alt in a {
        let mut cur: Lang = [vec![]].into_iter().collect();
        for f in alt {
            let fl = lang_factor(f, langs, l, cap)?;
            cur = concat(&cur, &fl, l, cap)?;
            if cur.is_empty() {
                break;
            }
        }
        r.extend(cur);
        if r.len() > cap {
            return None;
        }
    }
    Some(r)
}

fn lang_factor(f: &IFactor, langs: &[Lang], l: usize, cap: usize) -> Option<Lang> {
    Some(match f {
        IFactor::T(t) => {
            if l >= 1 {
                [vec![*t as u8]].into_iter().collect()
            } else {
                Lang::new()
            }
        }
        IFactor::N(n) => langs[*n].clone(),
        IFactor::Group(a) => lang_alts(a, langs, l, cap)?,
        IFactor::Opt(a) => {
            let mut r = lang_alts(a, langs, l, cap)?;
            r.insert(vec![]);
            r
        }
        IFactor::Rep(a) => {
            let body = lang_alts(a, langs, l, cap)?;
            let mut r: Lang = [vec![]].into_iter().collect();
            loop {
                let mut n2 = concat(&r, &body, l, cap)?;
                n2.insert(vec![]);
                n2.extend(r.iter().cloned());
                if n2.len() == r.len() {
                    break;
                }
                r = n2;
            }
            r
        }
    })
}

/// Minimal derivation height per non-terminal (usize::MAX = non-productive)
pub fn min_heights(g: &IGrammar) -> Vec<usize> {
    let mut h = vec![usize::MAX; g.nts.len()];
    loop {
        let mut changed = false;
        for nt in 0..g.nts.len() {
            let v = mh_alts(&g.rules[nt], &h);
            let v = if v == usize::MAX { v } else { v + 1 };
            if v < h[nt] {
                h[nt] = v;
                changed = true;
            }
        }
        if !changed {
            break;
        }
    }
    h
}

fn mh_alts(a: &IAlts, h: &[usize]) -> usize {
    a.iter().map(|alt| mh_alt(alt, h)).min().unwrap_or(usize::MAX)
}

pub fn mh_alt(alt: &IAlt, h: &[usize]) -> usize {
    let mut m = 0usize;
    for f in alt {
        let v = match f {
            IFactor::T(_) => 0,
            IFactor::N(n) => h[*n],
            IFactor::Group(a) => mh_alts(a, h),
            IFactor::Opt(_) | IFactor::Rep(_) => 0,
        };
        if v == usize::MAX {
            return usize::MAX;
        }
        m = m.max(v);
    }
    m
}

/// Deterministic pseudo-random derivation driven by a choice tape (so that proptest owns the
/// randomness and shrinking works: smaller tape values pick earlier / shorter alternatives).
pub struct Tape<'a> {
    pub data: &'a [u16],
    pub pos: usize,
}

impl Tape<'_> {
    pub fn next(&mut self, n: usize) -> usize {
        if n <= 1 {
            return 0;
        }
        let v = self.data.get(self.pos).copied().unwrap_or(0) as usize;
        self.pos += 1;
        (v * n) >> 16
    }
}

/// Derive a sentence of `nt` with a height budget; returns None if nt is non-productive.
pub fn derive(g: &IGrammar, h: &[usize], nt: usize, budget: usize, tape: &mut Tape, out: &mut Vec<usize>) -> bool {
    if h[nt] == usize::MAX || out.len() > 60 {
        return false;
    }
    let budget = budget.max(h[nt]);
    derive_alts(g, h, &g.rules[nt], budget - 1, tape, out)
}

fn derive_alts(g: &IGrammar, h: &[usize], a: &IAlts, budget: usize, tape: &mut Tape, out: &mut Vec<usize>) -> bool {
    let ok: Vec<&IAlt> = a.iter().filter(|alt| mh_alt(alt, h) <= budget).collect();
    if ok.is_empty() {
        return false;
    }
    let alt = ok[tape.next(ok.len())];
    for f in alt {
        let r = match f {
            IFactor::T(t) => {
                out.push(*t);
                true
            }
            IFactor::N(n) => derive(g, h, *n, budget, tape, out),
            IFactor::Group(a) => derive_alts(g, h, a, budget, tape, out),
            IFactor::Opt(a) => {
                if mh_alts(a, h) <= budget && tape.next(2) == 1 {
                    derive_alts(g, h, a, budget, tape, out)
                } else {
                    true
                }
            }
            IFactor::Rep(a) => {
                let mut r = true;
                if mh_alts(a, h) <= budget {
                    let n = tape.next(4);
                    for _ in 0..n {
                        r &= derive_alts(g, h, a, budget, tape, out);
                    }
                }
                r
            }
        };
        if !r {
            return false;
        }
    }
    true
}

/// A random sentence of the grammar (None if start is non-productive / too long)
pub fn sentence(g: &IGrammar, h: &[usize], budget: usize, tape: &[u16]) -> Option<Vec<usize>> {
    if g.start == usize::MAX {
        return None;
    }
    let mut out = vec![];
    let mut t = Tape { data: tape, pos: 0 };
    if derive(g, h, g.start, budget, &mut t, &mut out) && out.len() <= 40 {
        Some(out)
    } else {
        None
    }
}

#[cfg(test)]
mod tests {
    use super::*;

    fn g1() -> Grammar {
        // S: 'a' { B } [ 'c' ]; B: 'b' | '(' S ')';
        Grammar::new(
            "S",
            vec![
                Prod {
                    lhs: "S".into(),
                    alts: vec![vec![
                        Factor::t("a"),
                        Factor::Rep(vec![vec![Factor::n("B")]]),
                        Factor::Opt(vec![vec![Factor::t("c")]]),
                    ]],
                },
                Prod {
                    lhs: "B".into(),
                    alts: vec![vec![Factor::t("b")], vec![Factor::t("("), Factor::n("S"), Factor::t(")")]],
                },
            ],
        )
    }

    #[test]
    fn chart_and_lang_agree() {
        let g = IGrammar::from(&g1());
        // a=0 b=1 c=2 (=3 )=4
        assert!(member(&g, &[0]));
        assert!(member(&g, &[0, 1, 1, 2]));
        assert!(member(&g, &[0, 3, 0, 4, 2]));
        assert!(!member(&g, &[0, 2, 2]));
        assert!(!member(&g, &[]));
        let l = lang_upto(&g, 5, 100000).unwrap();
        // exhaustive agreement on all strings up to length 5
        let mut cnt = 0;
        for len in 0..=5usize {
            let mut w = vec![0usize; len];
            loop {
                let inl = l.contains(&w.iter().map(|x| *x as u8).collect::<Vec<_>>());
                assert_eq!(inl, member(&g, &w), "{w:?}");
                cnt += 1;
                let mut i = 0;
                while i < len {
                    w[i] += 1;
                    if w[i] < 5 {
                        break;
                    }
                    w[i] = 0;
                    i += 1;
                }
                if i == len {
                    break;
                }
            }
        }
        assert!(cnt > 3000);
    }

    #[test]
    fn left_recursion() {
        // E: E '+' 'n' | 'n';
        let g = Grammar::new(
            "E",
            vec![Prod {
                lhs: "E".into(),
                alts: vec![vec![Factor::n("E"), Factor::t("+"), Factor::t("n")], vec![Factor::t("n")]],
            }],
        );
        let g = IGrammar::from(&g);
        assert!(member(&g, &[1]));
        assert!(member(&g, &[1, 0, 1, 0, 1]));
        assert!(!member(&g, &[1, 0]));
        let h = min_heights(&g);
        assert_eq!(h, vec![1]);
        let s = sentence(&g, &h, 4, &[0, 0, 40000, 40000]).unwrap();
        assert!(member(&g, &s));
    }
}

#[cfg(test)]
mod tests2 {
    use super::*;
    #[test]
    fn nonproductive_detected() {
        let g = Grammar::new(
            "S",
            vec![
                Prod { lhs: "S".into(), alts: vec![vec![Factor::t("."), Factor::n("A")]] },
                Prod { lhs: "A".into(), alts: vec![vec![Factor::t("a"), Factor::Group(vec![vec![Factor::n("C")]]), Factor::n("S")]] },
                Prod { lhs: "C".into(), alts: vec![vec![Factor::t("x")]] },
            ],
        );
        let ig = IGrammar::from(&g);
        let h = min_heights(&ig);
        assert_eq!(h[0], usize::MAX);
        assert_eq!(h[1], usize::MAX);
        assert_eq!(h[2], 1);
    }
}

//! C18 All generated parts agree on terminal identity

use crate::ast::*;
use crate::chart::Tape;
use crate::engine::*;
use crate::interp::{self, RunOpts};
use crate::loader::{self, Sym};
use crate::pipeline::{self, Opts};
use crate::rx::*;
use crate::util::{guard, hash_of};
use proptest::prelude::*;
use proptest::strategy::BoxedStrategy;
use serde::{Deserialize, Serialize};
use serde_json::json;
use std::collections::BTreeMap;

pub struct C18;

/// literal texts with their meaning as a regex; as a raw string they mean themselves
fn pool() -> Vec<(&'static str, Rx)> {
    use Rx::*;
    vec![
        ("a+", Plus(Box::new(Lit('a')))),
        ("ab", Rx::lit_str("ab")),
        ("a", Rx::lit_str("a")),
        ("a.", Seq(vec![Lit('a'), Dot])),
        ("b?c", Seq(vec![Opt(Box::new(Lit('b'))), Lit('c')])),
        ("x|y", Alt(vec![Lit('x'), Lit('y')])),
        ("c*d", Seq(vec![Star(Box::new(Lit('c'))), Lit('d')])),
        ("[ab]", Class(vec![('a', 'b')], false)),
        ("if", Rx::lit_str("if")),
    ]
}

#[derive(Clone, Debug, Serialize, Deserialize, PartialEq)]
pub struct Occ {
    pub text: usize,
    pub quote: Quote,
    /// (positive, pool index, quote)
    pub lookahead: Option<(bool, usize, Quote)>,
    /// refer to the terminal through a primary non-terminal
    pub via_primary: bool,
}

#[derive(Clone, Debug, Serialize, Deserialize)]
pub struct IdCase {
    pub lr: bool,
    /// productions A, B, ... each a sequence of occurrences; S: A B ...
    pub seqs: Vec<Vec<Occ>>,
    /// index of an occurrence (flattened) used in `%on .. %enter INITIAL`, and one only in %skip
    pub on_occ: Option<usize>,
    pub skip_occ: Option<Occ>,
}

impl Occ {
    fn term(&self) -> Term {
        let p = pool();
        Term {
            lit: Lit { text: p[self.text].0.to_string(), quote: self.quote },
            lookahead: self.lookahead.map(|(pos, i, q)| (pos, Lit { text: p[i].0.to_string(), quote: q })),
            sample: String::new(),
        }
    }
    fn rx(&self) -> Rx {
        let p = pool();
        if self.quote == Quote::Raw { Rx::lit_str(p[self.text].0) } else { p[self.text].1.clone() }
    }
    fn la_rx(&self) -> Option<(bool, Rx)> {
        let p = pool();
        self.lookahead.map(|(pos, i, q)| (pos, if q == Quote::Raw { Rx::lit_str(p[i].0) } else { p[i].1.clone() }))
    }
    fn expected_pattern(&self) -> (String, Option<(bool, String)>) {
        let p = pool();
        let ex = |t: &str, q: Quote| if q == Quote::Raw { regex::escape(t) } else { t.to_string() };
        (ex(p[self.text].0, self.quote), self.lookahead.map(|(pos, i, q)| (pos, ex(p[i].0, q))))
    }
}

fn build_grammar(c: &IdCase) -> (Grammar, Vec<Occ>) {
    let mut prods = vec![];
    let mut primaries: Vec<(String, Occ)> = vec![];
    let mut flat = vec![];
    let names: Vec<String> = (0..c.seqs.len()).map(|i| format!("P{i}")).collect();
    prods.push(Prod { lhs: "S".into(), alts: vec![names.iter().map(|n| Factor::n(n)).collect()] });
    let mut body = vec![];
    for (i, seq) in c.seqs.iter().enumerate() {
        let mut alt = vec![];
        for o in seq {
            flat.push(o.clone());
            if o.via_primary {
                let id = o.term().identity();
                let name = match primaries.iter().find(|(_, p)| p.term().identity() == id) {
                    Some((n, _)) => n.clone(),
                    None => {
                        let n = format!("Tok{}", primaries.len());
                        primaries.push((n.clone(), o.clone()));
                        n
                    }
                };
                alt.push(Factor::n(&name));
            } else {
                alt.push(Factor::term(o.term()));
            }
        }
        body.push(Prod { lhs: names[i].clone(), alts: vec![alt] });
    }
    prods.extend(body);
    for (n, o) in &primaries {
        prods.push(Prod { lhs: n.clone(), alts: vec![vec![Factor::term(o.term())]] });
    }
    let mut g = Grammar::new("S", prods);
    if c.lr {
        g.gtype = Some(GType::LALR);
    }
    if let Some(i) = c.on_occ {
        if let Some(o) = flat.get(i) {
            if o.via_primary {
                let id = o.term().identity();
                let name = primaries.iter().find(|(_, p)| p.term().identity() == id).unwrap().0.clone();
                g.initial.on.push((vec![name], Switch::Enter("INITIAL".into())));
            }
        }
    }
    if let Some(o) = &c.skip_occ {
        let id = o.term().identity();
        if !flat.iter().any(|f| f.term().identity() == id) {
            g.prods.push(Prod { lhs: "Skipped".into(), alts: vec![vec![Factor::term(o.term())]] });
            g.initial.skip.push("Skipped".into());
        }
    }
    (g, flat)
}

impl Check for C18 {
    type Case = IdCase;
    fn id(&self) -> &'static str {
        "C18"
    }
    fn rule(&self) -> String {
        "case = grammar S: P0 P1 ..; Pi: sequence of 1-4 terminal occurrences drawn from 9 texts (a+, ab, a, a., b?c, x|y, c*d, [ab], if), each occurrence written as '..', \"..\" or /../, optionally with a positive or negative lookahead, inline or through a primary non-terminal; optionally %on <primary> %enter and %skip of an otherwise unused terminal; ll(k) or lalr(1). Oracle (consistency, not a prescribed numbering): the token number each occurrence carries in the generated PRODUCTIONS table and in the export model must be the number whose scanner pattern (macro text and export scanner.terminals) is that occurrence's expanded text and lookahead; two occurrences share a number iff text, raw-vs-regex behaviour and lookahead agree; TERMINAL_NAMES has one name per number; %skip / %on numbers are the numbers of the named primary terminals; LR actions only use defined numbers; end to end: an input built from one sample per occurrence is accepted whenever the reference lexer reads it as the intended terminal sequence. Evaluations = occurrences checked. Non-trivial = grammar with two occurrences of equal text but different behaviour (quoting or lookahead); distinct by grammar text".into()
    }
    fn strategy(&self, _tier: Tier) -> BoxedStrategy<IdCase> {
        let np = pool().len();
        let quote = prop_oneof![Just(Quote::Raw), Just(Quote::Str), Just(Quote::Rx)];
        let la = proptest::option::weighted(0.15, (any::<bool>(), 0..np, quote.clone()));
        // few texts per case so that equal texts meet often
        let occ = (0usize..3, quote.clone(), la, any::<bool>());
        (any::<bool>(), 0..np, proptest::collection::vec(proptest::collection::vec(occ.clone(), 1..=4), 1..=3), proptest::option::of(0usize..8), proptest::option::of(occ))
            .prop_map(move |(lr, base, seqs, on_occ, skip)| {
                let conv = |(t, q, l, v): (usize, Quote, Option<(bool, usize, Quote)>, bool)| Occ { text: (base + t) % np, quote: q, lookahead: l, via_primary: v };
                IdCase { lr, seqs: seqs.into_iter().map(|s| s.into_iter().map(conv).collect()).collect(), on_occ, skip_occ: skip.map(conv) }
            })
            .boxed()
    }
    fn cases(&self, tier: Tier) -> u32 {
        tier.pick(60000, 800000)
    }
    fn run(&self, c: &IdCase, st: &mut Stats) -> Verdict {
        let (g, flat) = build_grammar(c);
        let text = g.print();
        let built = match pipeline::build(&text, &Opts::default()) {
            Ok(b) => b,
            Err(f) if f.is_panic() => return Verdict::Fail("C18:pipeline_panics".into(), format!("{}\n{text}", f.msg())),
            Err(f) => return Verdict::Skip(format!("rejected at {:?}: {}", f.stage(), crate::util::trunc(f.msg().rsplit(": ").next().unwrap_or(""), 50))),
        };
        let tables = match loader::read_tables(&built.parser_src) {
            Ok(t) => t,
            Err(e) => return Verdict::Fail("C18:generated_source_unreadable".into(), format!("{e}\n{text}")),
        };
        let export = match pipeline::export_model(&built) {
            Ok(e) => e,
            Err(f) => return Verdict::Fail("C18:export_fails".into(), format!("{}\n{text}", f.msg())),
        };
        // (a) scanner: number -> (pattern, lookahead), INITIAL mode of the macro
        let mut scanner: BTreeMap<u16, (String, Option<(bool, String)>)> = BTreeMap::new();
        for m in &tables.modes {
            for (pat, idx, la) in &m.tokens {
                if *idx >= 5 {
                    if let Some(old) = scanner.insert(*idx as u16, (pat.clone(), la.clone())) {
                        if old != (pat.clone(), la.clone()) {
                            return Verdict::Fail("C18:scanner_number_with_two_patterns".into(), format!("number {idx}: {old:?} and {:?}\n{text}", (pat, la)));
                        }
                    }
                }
            }
        }
        let n_names = tables.terminal_names.len();
        let err_ty = (n_names - 1) as u16;
        // export scanner terminals must agree with the macro
        if let Some(ts) = export["scanner"]["terminals"].as_array() {
            for t in ts {
                let idx = t["index"].as_u64().unwrap_or(0) as u16;
                let pat = t["expanded_pattern"].as_str().unwrap_or("").to_string();
                let la = t["lookahead"].as_object().map(|l| (l["is_positive"].as_bool().unwrap_or(false), l["expanded_pattern"].as_str().unwrap_or("").to_string()));
                if scanner.get(&idx) != Some(&(pat.clone(), la.clone())) {
                    return Verdict::Fail("C18:export_scanner_differs_from_generated_scanner".into(), format!("terminal {idx}: export {:?}, generated {:?}\n{text}", (pat, la), scanner.get(&idx)));
                }
            }
        } else {
            return Verdict::Fail("C18:export_model_without_scanner_terminals".into(), text);
        }
        // (b) productions: occurrences in order.  Production order of the Cfg: S, P0.., primaries
        let rhs_numbers: Vec<Vec<u16>> = if let Some((_, prods)) = &tables.ll {
            prods.iter().map(|p| p.rhs.iter().filter_map(|s| if let Sym::T(t) = s { Some(*t) } else { None }).collect()).collect()
        } else {
            // LR tables carry no right-hand sides; use the export model
            vec![]
        };
        let export_rhs: Vec<Vec<u16>> = export["productions"]
            .as_array()
            .map(|ps| {
                ps.iter()
                    .map(|p| p["rhs"].as_array().map(|r| r.iter().filter_map(|s| s.get("Terminal").or_else(|| s.get("terminal")).and_then(|t| t["index"].as_u64()).map(|i| i as u16)).collect()).unwrap_or_default())
                    .collect()
            })
            .unwrap_or_default();
        // map productions by lhs name
        let cfg = &built.gc.cfg;
        let mut seen_number: BTreeMap<(String, bool, Option<(bool, String, bool)>), u16> = BTreeMap::new();
        let mut interesting = false;
        for (i, seq) in c.seqs.iter().enumerate() {
            let name = format!("P{i}");
            let Some(pi) = cfg.pr.iter().position(|p| p.get_n_str() == name) else {
                return Verdict::Fail("C18:production_missing".into(), format!("{name}\n{text}"));
            };
            for (j, o) in seq.iter().enumerate() {
                st.eval(1);
                // the occurrence's number: inline -> rhs of P_i; via primary -> rhs of the primary production
                let (prod, pos) = if o.via_primary {
                    let id = o.term().identity();
                    let pname = match &cfg.pr[pi].get_r()[j] {
                        parol::Symbol::N(n, ..) => n.clone(),
                        s => return Verdict::Fail("C18:unexpected_symbol".into(), format!("{s}\n{text}")),
                    };
                    let _ = id;
                    (cfg.pr.iter().position(|p| p.get_n_str() == pname).unwrap_or(usize::MAX), 0usize)
                } else {
                    // position among the terminals of the rhs
                    let pos = seq[..j].iter().filter(|x| !x.via_primary).count();
                    (pi, pos)
                };
                let exp_num = export_rhs.get(prod).and_then(|r| r.get(pos)).copied();
                let src_num = if tables.ll.is_some() { rhs_numbers.get(prod).and_then(|r| r.get(pos)).copied() } else { exp_num };
                let (Some(exp_num), Some(src_num)) = (exp_num, src_num) else {
                    return Verdict::Fail("C18:occurrence_not_found_in_tables".into(), format!("occurrence {j} of {name} ({})\nexport rhs {export_rhs:?}\n{text}", o.term().print()));
                };
                if exp_num != src_num {
                    return Verdict::Fail("C18:export_and_source_numbers_differ".into(), format!("occurrence {} of {name}: export {exp_num}, generated source {src_num}\n{text}", o.term().print()));
                }
                let want = o.expected_pattern();
                if scanner.get(&src_num) != Some(&want) {
                    return Verdict::Fail(
                        "C18:occurrence_carries_number_of_other_terminal".into(),
                        format!("occurrence {} in {name} carries token number {src_num} whose scanner pattern is {:?}; expected pattern {want:?}\nscanner {scanner:?}\n{text}", o.term().print(), scanner.get(&src_num)),
                    );
                }
                let id = o.term().identity();
                if let Some(n) = seen_number.get(&id) {
                    if *n != src_num {
                        // parol compares lookahead expressions including their quoting style, so
                        // `?= "x"` and `?= /x/` (same behaviour) make two terminals
                        let la_styles: std::collections::BTreeSet<Quote> = flat.iter().filter(|f| f.term().identity() == id).filter_map(|f| f.lookahead.map(|l| l.2)).collect();
                        let sig = if la_styles.contains(&Quote::Str) && la_styles.contains(&Quote::Rx) {
                            "C18:same_terminal_two_numbers:lookahead_written_as_string_and_as_regex"
                        } else {
                            "C18:same_terminal_two_numbers"
                        };
                        return Verdict::Fail(sig.into(), format!("{} has numbers {n} and {src_num}\n{text}", o.term().print()));
                    }
                }
                if seen_number.iter().any(|(k, v)| *v == src_num && *k != id) {
                    return Verdict::Fail("C18:different_terminals_share_number".into(), format!("{} shares number {src_num}\n{text}", o.term().print()));
                }
                if seen_number.keys().any(|k| k.0 == id.0 && *k != id) {
                    interesting = true;
                }
                seen_number.insert(id, src_num);
            }
        }
        // (d) names: one per number, no gaps
        let max_user = scanner.keys().filter(|k| **k != err_ty).max().copied().unwrap_or(4);
        if (max_user as usize) + 2 != n_names {
            return Verdict::Fail("C18:terminal_name_count".into(), format!("{n_names} names, highest user terminal {max_user}\n{text}"));
        }
        // (e) skip / on
        if let Some(o) = &c.skip_occ {
            if g.initial.skip.contains(&"Skipped".to_string()) {
                let want = o.expected_pattern();
                let sk = tables.skip_by_state.first().cloned().unwrap_or_default();
                if sk.len() != 1 || scanner.get(&sk[0]) != Some(&want) {
                    return Verdict::Fail("C18:skip_list_names_other_terminal".into(), format!("skip list {sk:?}, expected the number of pattern {want:?}; scanner {scanner:?}\n{text}"));
                }
            }
        }
        if let Some((names, _)) = g.initial.on.first() {
            let o = flat[c.on_occ.unwrap()].clone();
            let want = o.expected_pattern();
            let tr = &tables.modes[0].transitions;
            if tr.len() != 1 || scanner.get(&(tr[0].0 as u16)) != Some(&want) {
                return Verdict::Fail("C18:transition_names_other_terminal".into(), format!("%on {names:?}: transitions {tr:?}, expected the number of pattern {want:?}; scanner {scanner:?}\n{text}"));
            }
        }
        // (c) LR actions use defined numbers
        if let Some((_, states, _)) = &tables.lr {
            for s in states {
                for (t, _) in &s.actions {
                    if *t != 0 && !scanner.contains_key(t) {
                        return Verdict::Fail("C18:lr_action_on_undefined_terminal".into(), format!("terminal {t}\n{text}"));
                    }
                }
            }
        }
        // end to end
        if g.initial.on.is_empty() {
            let order: Vec<(u16, Occ)> = {
                let mut v: Vec<(u16, Occ)> = flat.iter().filter_map(|o| seen_number.get(&o.term().identity()).map(|n| (*n, o.clone()))).collect();
                if let (Some(o), Some(n)) = (&c.skip_occ, tables.skip_by_state.first().and_then(|v| v.first())) {
                    v.push((*n, o.clone()));
                }
                v.sort_by_key(|x| x.0);
                v.dedup_by_key(|x| x.0);
                v
            };
            let modes = vec![RefMode {
                auto_nl: true,
                auto_ws: true,
                terms: order.iter().map(|(n, o)| RefTerm { ty: *n, rx: o.rx(), lookahead: o.la_rx() }).collect(),
                ..Default::default()
            }];
            let tape: Vec<u16> = (0..64).map(|i| (i * 7919) as u16).collect();
            let mut t = Tape { data: &tape, pos: 0 };
            let mut input = String::new();
            for o in &flat {
                o.rx().sample(&mut t, &['a', 'b', 'c', 'd', 'x', 'y'], &mut input);
                input.push(' ');
            }
            let want_types: Vec<u16> = flat.iter().map(|o| seen_number[&o.term().identity()]).collect();
            let got_types: Vec<u16> = ref_lex(&modes, &input, err_ty).iter().filter(|t| t.ty >= 5).map(|t| t.ty).collect();
            if got_types == want_types {
                if let Ok(Ok(l)) = guard(|| loader::load(&built.parser_src)) {
                    let run = interp::run(&l, &input, &RunOpts::default(), 50_000);
                    st.class("end_to_end_parse");
                    if !run.outcome.is_ok() {
                        return Verdict::Fail("C18:sentence_of_own_samples_rejected".into(), format!("input {input:?} outcome {:?}\n{text}", run.outcome));
                    }
                }
            }
        }
        if interesting {
            st.class("equal_text_different_behaviour");
            st.nontrivial(hash_of(&text));
        }
        st.sample(|| json!({"grammar": text, "numbers": seen_number.iter().map(|(k, v)| format!("{k:?} -> {v}")).collect::<Vec<_>>()}));
        Verdict::Pass
    }
}

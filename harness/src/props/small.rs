//! C31 recovery edit scripts, C32 packed k-tuples

use crate::engine::*;
use crate::util::{guard, hash_of};
use parol::analysis::compiled_terminal::CompiledTerminal;
use parol::analysis::k_tuple::Terminals;
use parol::{KTuple, KTupleBuilder, KTuples, KTuplesBuilder};
use parol_runtime::parser::verif::{EditOp, levenshtein_distance};
use proptest::prelude::*;
use proptest::strategy::BoxedStrategy;
use serde::{Deserialize, Serialize};
use serde_json::json;
use std::collections::BTreeSet;
use std::hash::{Hash, Hasher};

pub struct C31;

#[derive(Clone, Debug, Serialize, Deserialize)]
pub struct LevCase {
    pub act: Vec<u16>,
    pub exp: Vec<u16>,
}

fn lev_ref(a: &[u16], b: &[u16]) -> usize {
    let mut d: Vec<usize> = (0..=b.len()).collect();
    for i in 1..=a.len() {
        let mut prev = d[0];
        d[0] = i;
        for j in 1..=b.len() {
            let cur = d[j];
            d[j] = if a[i - 1] == b[j - 1] { prev } else { 1 + prev.min(d[j]).min(d[j - 1]) };
            prev = cur;
        }
    }
    d[b.len()]
}

impl Check for C31 {
    type Case = LevCase;
    fn id(&self) -> &'static str {
        "C31"
    }
    fn rule(&self) -> String {
        "case = two token-type sequences (length 0-12, alphabet of 1-5 symbols, the second derived from the first by random edits half of the time so that long common subsequences occur); the edit script of the crate-private recovery function (reached through the cfg-guarded re-export) is applied to the scanned sequence exactly as adjust_token_stream does (Keep / Replace / Insert / Delete); oracle: result equals the expected sequence, every operation is applicable, the number of non-Keep operations equals the reported distance, and that equals the Wagner-Fischer distance. Evaluations = pairs. Non-trivial = both sequences non-empty and different; distinct by pair".into()
    }
    fn strategy(&self, _tier: Tier) -> BoxedStrategy<LevCase> {
        (1u16..=5, proptest::collection::vec(any::<u16>(), 0..=12), proptest::collection::vec(any::<u16>(), 0..=12), any::<bool>(), proptest::collection::vec(any::<u16>(), 0..8))
            .prop_map(|(n, a, b, derive, edits)| {
                let act: Vec<u16> = a.iter().map(|x| 5 + x % n).collect();
                let exp: Vec<u16> = if derive {
                    let mut e = act.clone();
                    for ed in edits.chunks(2) {
                        let pos = if e.is_empty() { 0 } else { ed[0] as usize % (e.len() + 1) };
                        match ed.get(1).copied().unwrap_or(0) % 3 {
                            0 if pos < e.len() => {
                                e.remove(pos);
                            }
                            1 => e.insert(pos, 5 + ed[0] % n),
                            _ if pos < e.len() => e[pos] = 5 + (ed[0] / 7) % n,
                            _ => {}
                        }
                    }
                    e.truncate(12);
                    e
                } else {
                    b.iter().map(|x| 5 + x % n).collect()
                };
                LevCase { act, exp }
            })
            .boxed()
    }
    fn cases(&self, tier: Tier) -> u32 {
        tier.pick(600000, 10000000)
    }
    fn run(&self, c: &LevCase, st: &mut Stats) -> Verdict {
        st.eval(1);
        let (dist, ops) = match guard(|| levenshtein_distance(&c.act, &c.exp)) {
            Ok(r) => r,
            Err(p) => return Verdict::Fail("C31:panics".into(), format!("{p}\n{c:?}")),
        };
        let mut cur = c.act.clone();
        let (mut i, mut j) = (0usize, 0usize);
        for op in &ops {
            let ok = match op {
                EditOp::Keep => {
                    let ok = i < cur.len() && j < c.exp.len() && cur[i] == c.exp[j];
                    i += 1;
                    j += 1;
                    ok
                }
                EditOp::Replace => {
                    let ok = i < cur.len() && j < c.exp.len();
                    if ok {
                        cur[i] = c.exp[j];
                    }
                    i += 1;
                    j += 1;
                    ok
                }
                EditOp::Insert => {
                    let ok = i <= cur.len() && j < c.exp.len();
                    if ok {
                        cur.insert(i, c.exp[j]);
                    }
                    i += 1;
                    j += 1;
                    ok
                }
                EditOp::Delete => {
                    let ok = i < cur.len();
                    if ok {
                        cur.remove(i);
                    }
                    ok
                }
            };
            if !ok {
                return Verdict::Fail("C31:script_not_applicable".into(), format!("operation {op:?} not applicable at scanned index {i}, expected index {j}\nscript {ops:?}\n{c:?}"));
            }
        }
        if cur != c.exp {
            return Verdict::Fail("C31:script_does_not_produce_expected".into(), format!("applying {ops:?} gives {cur:?}\n{c:?}"));
        }
        let non_keep = ops.iter().filter(|o| **o != EditOp::Keep).count();
        if non_keep != dist {
            return Verdict::Fail("C31:script_length_differs_from_distance".into(), format!("{non_keep} non-keep operations, reported distance {dist}\nscript {ops:?}\n{c:?}"));
        }
        let want = lev_ref(&c.act, &c.exp);
        if dist != want {
            return Verdict::Fail("C31:distance_not_minimal".into(), format!("reported {dist}, minimal {want}\n{c:?}"));
        }
        st.class(&format!("distance={}", dist.min(8)));
        if !c.act.is_empty() && !c.exp.is_empty() && c.act != c.exp {
            st.nontrivial(hash_of(&(&c.act, &c.exp)));
        }
        st.sample(|| json!({"scanned": c.act, "expected": c.exp, "script": format!("{ops:?}")}));
        Verdict::Pass
    }
}

// ---------------------------------------------------------------------------------------------
pub struct C32;

#[derive(Clone, Debug, Serialize, Deserialize)]
pub enum TOp {
    /// push terminal (index into alphabet incl. 0 = end of input)
    Push(u16),
    /// k-concatenate with the sequence built from these terminals
    Concat(Vec<u16>, usize),
    /// truncate with Terminals::of
    Of(usize),
    ConcatEps(usize),
}

#[derive(Clone, Debug, Serialize, Deserialize)]
pub struct TupCase {
    pub max_terminal_index: usize,
    pub k: usize,
    pub start_eps: bool,
    pub ops: Vec<TOp>,
    pub set_a: Vec<Vec<u16>>,
    pub set_b: Vec<Vec<u16>>,
}

const EPS: u16 = 0xFFFF;

/// the model: a plain sequence; `None` = the epsilon value
#[derive(Clone, Debug, PartialEq, Eq)]
struct Model(Option<Vec<u16>>);

impl Model {
    fn seq(&self) -> Vec<u16> {
        self.0.clone().unwrap_or_default()
    }
    fn closed(&self) -> bool {
        self.0.as_ref().is_some_and(|s| s.last() == Some(&0))
    }
    fn complete(&self, k: usize) -> bool {
        match &self.0 {
            None => false,
            Some(s) => s.len() >= k || self.closed(),
        }
    }
    fn concat(&self, other: &Model, k: usize) -> Model {
        let Some(o) = &other.0 else { return self.clone() };
        if o.is_empty() {
            return self.clone();
        }
        let mut s = self.seq();
        if self.0.is_some() && self.complete(k) {
            return self.clone();
        }
        if self.0.is_none() && k == 0 {
            // epsilon cleared to the empty sequence, which is complete for k = 0
            return Model(Some(vec![]));
        }
        let take = (k - s.len().min(k)).min(o.len().min(k));
        s.extend_from_slice(&o[..take]);
        Model(Some(s))
    }
}

fn hash64<T: Hash>(t: &T) -> u64 {
    #[allow(deprecated)]
    let mut h = std::hash::SipHasher::new();
    t.hash(&mut h);
    h.finish()
}

fn build(m: usize, s: &[u16]) -> Terminals {
    let mut t = Terminals::new(m);
    for x in s {
        let _ = t.push(CompiledTerminal(*x));
    }
    t
}

fn seq_of(t: &Terminals) -> Vec<u16> {
    t.iter().collect()
}

/// sanitise a generated sequence: terminals within 0..=m, end of input only as last element
fn clean(s: &[u16], m: usize, maxlen: usize) -> Vec<u16> {
    let mut out = vec![];
    for x in s.iter().take(maxlen) {
        let v = x % (m as u16 + 1);
        out.push(v);
        if v == 0 {
            break;
        }
    }
    out
}

impl Check for C32 {
    type Case = TupCase;
    fn id(&self) -> &'static str {
        "C32"
    }
    fn rule(&self) -> String {
        "case = maximal terminal index around every bit-width boundary (2^b-2, 2^b-1, 2^b for b <= 11, plus random values up to the 12-bit limit) x k in 0..=10 x a history of operations on a packed Terminals value (push, k-concatenation with another sequence or with epsilon, truncation with `of`), mirrored on a Vec<u16> model with the documented conventions (epsilon neutral, a sequence ending in end-of-input is closed, push beyond 10 elements is an error, concatenation truncates to k); after every step len / is_empty / k_len / get / iter / is_eps / is_k_complete are compared, and the value must be ==, hash-equal and cmp-Equal to a value built freshly from the model's sequence (stale payload bits); cmp must be antisymmetric and consistent with ==; then KTuple (builder / from_slice / of, set_k, k_concat, to_string order) and KTuples (builder, union, intersection, is_disjoint, k_concat, sorted) are compared with sequence / set-of-sequence models. Evaluations = observations compared. Non-trivial = alphabet size + 1 is a power of two or k = 10; distinct by case".into()
    }
    fn strategy(&self, _tier: Tier) -> BoxedStrategy<TupCase> {
        let boundary = (1u32..=11, 0usize..3).prop_map(|(b, d)| ((1usize << b) + d).saturating_sub(2).max(1));
        let any_m = 1usize..4000;
        let m = prop_oneof![3 => boundary, 1 => any_m];
        let seq = proptest::collection::vec(any::<u16>(), 0..12);
        let op = prop_oneof![
            4 => any::<u16>().prop_map(TOp::Push),
            3 => (seq.clone(), 0usize..=10).prop_map(|(s, k)| TOp::Concat(s, k)),
            1 => (0usize..=10).prop_map(TOp::Of),
            1 => (0usize..=10).prop_map(TOp::ConcatEps),
        ];
        (m, 0usize..=10, any::<bool>(), proptest::collection::vec(op, 0..10), proptest::collection::vec(seq.clone(), 0..6), proptest::collection::vec(seq, 0..6))
            .prop_map(|(max_terminal_index, k, start_eps, ops, set_a, set_b)| TupCase { max_terminal_index, k, start_eps, ops, set_a, set_b })
            .boxed()
    }
    fn cases(&self, tier: Tier) -> u32 {
        tier.pick(400000, 6000000)
    }
    fn run(&self, c: &TupCase, st: &mut Stats) -> Verdict {
        let m = c.max_terminal_index;
        let r = guard(|| -> Result<(), (String, String)> {
            let mut evals = 0u64;
            let mut t = if c.start_eps { Terminals::eps(m) } else { Terminals::new(m) };
            let mut model = if c.start_eps { Model(None) } else { Model(Some(vec![])) };
            let step = std::cell::Cell::new(0usize);
            let observe = |t: &Terminals, model: &Model, what: &str| -> Result<(), (String, String)> {
                let fail = |sig: &str, msg: String| Err((format!("C32:{sig}"), format!("after step {} ({what}): {msg}\nmodel {model:?}, packed {t:?}", step.get())));
                let want: Vec<u16> = match &model.0 {
                    None => vec![EPS],
                    Some(s) => s.clone(),
                };
                if seq_of(t) != want {
                    return fail("iteration_differs", format!("iter gives {:?}, model {:?}", seq_of(t), want));
                }
                if t.len() != want.len() || t.is_empty() != want.is_empty() {
                    return fail("len_differs", format!("len {} is_empty {}", t.len(), t.is_empty()));
                }
                if t.is_eps() != model.0.is_none() {
                    return fail("is_eps_differs", format!("is_eps {}", t.is_eps()));
                }
                for i in 0..=want.len() {
                    let g = t.get(i).map(|c| c.0);
                    if g != want.get(i).copied() {
                        return fail("get_differs", format!("get({i}) = {g:?}"));
                    }
                }
                for k in 0..=10usize {
                    if t.k_len(k) != want.len().min(k) {
                        return fail("k_len_differs", format!("k_len({k}) = {}", t.k_len(k)));
                    }
                    if t.is_k_complete(k) != model.complete(k) {
                        return fail("completeness_differs", format!("is_k_complete({k}) = {}", t.is_k_complete(k)));
                    }
                }
                // representation independence: equal to a freshly built value
                let fresh = match &model.0 {
                    None => Terminals::eps(m),
                    Some(s) => build(m, s),
                };
                if *t != fresh || hash64(t) != hash64(&fresh) || t.cmp(&fresh) != std::cmp::Ordering::Equal {
                    return fail("equality_depends_on_history", format!("fresh value {fresh:?}: eq {} hash_eq {} cmp {:?}", *t == fresh, hash64(t) == hash64(&fresh), t.cmp(&fresh)));
                }
                Ok(())
            };
            observe(&t, &model, "initial")?;
            evals += 1;
            let mut values: Vec<(Terminals, Model)> = vec![(t, model.clone())];
            for op in &c.ops {
                step.set(step.get() + 1);
                let what = format!("{op:?}");
                match op {
                    TOp::Push(x) => {
                        if model.0.is_none() {
                            continue; // pushing onto the epsilon value is not a documented use
                        }
                        let x = x % (m as u16 + 1);
                        let r = t.push(CompiledTerminal(x));
                        let s = model.0.as_mut().unwrap();
                        let want_err = s.len() >= 10;
                        if r.is_err() != want_err {
                            return Err(("C32:push_result_differs".into(), format!("push({x}) on {s:?} returned {r:?}")));
                        }
                        if !want_err && s.last() != Some(&0) {
                            s.push(x);
                        }
                    }
                    TOp::Concat(o, k) => {
                        let o = clean(o, m, 10);
                        let other = build(m, &o);
                        t = t.k_concat(&other, *k);
                        model = model.concat(&Model(Some(o)), *k);
                    }
                    TOp::ConcatEps(k) => {
                        t = t.k_concat(&Terminals::eps(m), *k);
                    }
                    TOp::Of(k) => {
                        t = Terminals::of(*k, t);
                        model = match &model.0 {
                            None => {
                                if *k >= 1 {
                                    Model(None)
                                } else {
                                    Model(Some(vec![]))
                                }
                            }
                            Some(s) => Model(Some(s[..s.len().min(*k)].to_vec())),
                        };
                    }
                }
                observe(&t, &model, &what)?;
                evals += 1;
                values.push((t, model.clone()));
            }
            // ordering: total, antisymmetric, consistent with equality
            for (a, ma) in &values {
                for (b, mb) in &values {
                    let eq_model = ma == mb;
                    if (a == b) != eq_model {
                        return Err(("C32:equality_differs_from_sequence_equality".into(), format!("{ma:?} vs {mb:?}: == gives {}", a == b)));
                    }
                    let ab = a.cmp(b);
                    let ba = b.cmp(a);
                    if ab != ba.reverse() || (ab == std::cmp::Ordering::Equal) != eq_model {
                        return Err(("C32:ordering_inconsistent".into(), format!("{ma:?} vs {mb:?}: cmp {ab:?} / {ba:?}")));
                    }
                    evals += 1;
                }
            }
            // KTuple: construction paths agree with the model
            let k = c.k;
            for s in c.set_a.iter().chain(c.set_b.iter()) {
                let s = clean(s, m, 10);
                let want: Vec<u16> = s.iter().copied().take(k).collect();
                let a = KTupleBuilder::new().k(k).max_terminal_index(m).terminal_string(&s).build().map_err(|e| ("C32:builder_fails".to_string(), e))?;
                let b = KTuple::from_slice(&s.iter().map(|x| CompiledTerminal(*x)).collect::<Vec<_>>(), k, m);
                let o = KTuple::of(build(m, &s), k);
                for (name, x) in [("builder", &a), ("from_slice", &b), ("of", &o)] {
                    let got: Vec<u16> = x.terminals().iter().collect();
                    if got != want || x.len() != want.len() || x.k() != k {
                        return Err(("C32:ktuple_construction_differs".into(), format!("{name}: k={k} input {s:?} gives {got:?} (k()={})", x.k())));
                    }
                    let complete = want.len() >= k || want.last() == Some(&0);
                    if x.is_k_complete() != complete {
                        return Err(("C32:ktuple_completeness_differs".into(), format!("{name}: k={k} {want:?} is_k_complete {}", x.is_k_complete())));
                    }
                }
                if a != b || a != o || hash64(&a) != hash64(&b) || hash64(&a) != hash64(&o) {
                    return Err(("C32:ktuple_equality_depends_on_construction".into(), format!("k={k} {want:?}")));
                }
                // set_k to a smaller / larger k keeps the sequence, recomputes completeness
                for k2 in [0usize, 1, k, 10] {
                    let y = a.set_k(k2);
                    let got: Vec<u16> = y.terminals().iter().collect();
                    let complete = got.len() >= k2 || got.last() == Some(&0);
                    if got != want || y.k() != k2 || y.is_k_complete() != complete {
                        return Err(("C32:set_k_differs".into(), format!("set_k({k2}) on {want:?} (k={k}) gives {got:?} k()={} complete {}", y.k(), y.is_k_complete())));
                    }
                }
                let names: Vec<String> = (0..=m.min(64)).map(|i| format!("t{i}")).collect();
                if want.iter().all(|x| (*x as usize) < names.len()) {
                    let txt = a.to_string(&names);
                    let exp = format!("[{}]", want.iter().map(|x| if *x == 0 { "$".to_string() } else if *x < 5 { ["$", "NewLine", "WhiteSpace", "LineComment", "BlockComment"][*x as usize].to_string() } else { names[*x as usize].clone() }).collect::<Vec<_>>().join(", "));
                    if txt != exp {
                        return Err(("C32:to_string_differs".into(), format!("{txt} vs {exp}")));
                    }
                }
                evals += 1;
            }
            // KTuples against sets of sequences
            if k >= 1 {
                let norm = |v: &Vec<Vec<u16>>| -> Vec<Vec<u16>> { v.iter().map(|s| clean(s, m, 10)).filter(|s| !s.is_empty()).collect() };
                let (va, vb) = (norm(&c.set_a), norm(&c.set_b));
                let mk = |v: &Vec<Vec<u16>>| -> Result<KTuples, (String, String)> {
                    let refs: Vec<&[u16]> = v.iter().map(|s| s.as_slice()).collect();
                    KTuplesBuilder::new().k(k).max_terminal_index(m).terminal_indices(&refs).build().map_err(|e| ("C32:ktuples_builder_fails".to_string(), e))
                };
                let to_set = |kt: &KTuples| -> BTreeSet<Vec<u16>> { kt.sorted().iter().map(|t| t.terminals().iter().collect()).collect() };
                let trunc = |v: &Vec<Vec<u16>>| -> BTreeSet<Vec<u16>> { v.iter().map(|s| s.iter().copied().take(k).collect()).collect() };
                let (a, b) = (mk(&va)?, mk(&vb)?);
                let (sa, sb) = (trunc(&va), trunc(&vb));
                if to_set(&a) != sa || a.len() != sa.len() {
                    return Err(("C32:ktuples_build_differs".into(), format!("k={k} {va:?} gives {:?} (len {})", to_set(&a), a.len())));
                }
                let (u, _) = a.union(&b);
                if to_set(&u) != sa.union(&sb).cloned().collect() || u.len() != sa.union(&sb).count() {
                    return Err(("C32:ktuples_union_differs".into(), format!("k={k} {va:?} U {vb:?} = {:?}", to_set(&u))));
                }
                let i = a.intersection(&b);
                if to_set(&i) != sa.intersection(&sb).cloned().collect() {
                    return Err(("C32:ktuples_intersection_differs".into(), format!("k={k} {va:?} n {vb:?} = {:?}", to_set(&i))));
                }
                if a.is_disjoint(&b) != sa.is_disjoint(&sb) {
                    return Err(("C32:ktuples_is_disjoint_differs".into(), format!("k={k} {va:?} vs {vb:?}: {}", a.is_disjoint(&b))));
                }
                if !sb.is_empty() {
                    let cc = a.clone().k_concat(&b, k);
                    let mut want = BTreeSet::new();
                    for x in &sa {
                        if x.len() >= k || x.last() == Some(&0) {
                            want.insert(x.clone());
                        } else {
                            for y in &sb {
                                let mut z = x.clone();
                                z.extend_from_slice(y);
                                z.truncate(k);
                                want.insert(z);
                            }
                        }
                    }
                    if to_set(&cc) != want {
                        return Err(("C32:ktuples_k_concat_differs".into(), format!("k={k} {va:?} . {vb:?} = {:?}, expected {want:?}", to_set(&cc))));
                    }
                }
                evals += 4;
            }
            let _ = evals;
            Ok(())
        });
        st.eval(1 + c.ops.len() as u64 + c.set_a.len() as u64 + c.set_b.len() as u64);
        match r {
            Err(p) => Verdict::Fail("C32:panics".into(), format!("{p}\n{c:?}")),
            Ok(Err((sig, msg))) => Verdict::Fail(sig, format!("{msg}\n{c:?}")),
            Ok(Ok(())) => {
                let pow2 = (c.max_terminal_index + 2).is_power_of_two() || (c.max_terminal_index + 1).is_power_of_two();
                st.class(&format!("bits={}", (c.max_terminal_index + 1).ilog2() + 1));
                if pow2 || c.k == 10 {
                    st.nontrivial(hash_of(&format!("{c:?}")));
                }
                st.sample(|| json!(c));
                Verdict::Pass
            }
        }
    }
}

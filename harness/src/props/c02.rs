//! C02 LL(k) parse trees and semantic actions follow the leftmost derivation

use super::common::*;
use crate::engine::*;
use crate::gens::GenParams;
use crate::interp::{self, Child, Node, Outcome, RunOpts, Tok};
use crate::loader::Sym;
use crate::pipeline::Opts;
use crate::util::hash_of;
use proptest::strategy::BoxedStrategy;
use serde_json::json;

pub struct C02;

fn non_skip<'a>(r: &Ready, c: &'a [Node]) -> Vec<&'a Node> {
    c.iter().filter(|n| !matches!(n, Node::T(t) if r.is_skip_type(t.ty))).collect()
}

/// does `children` (non-skip) match the right-hand side of production p ?
fn matches_rhs(r: &Ready, p: usize, name: &str, children: &[&Node]) -> bool {
    let (_, prods) = r.loaded.tables.ll.as_ref().unwrap();
    let Some(pr) = prods.get(p) else { return false };
    if r.loaded.tables.non_terminals.get(pr.lhs).map(|s| s.as_str()) != Some(name) {
        return false;
    }
    if pr.rhs.len() != children.len() {
        return false;
    }
    pr.rhs.iter().zip(children).all(|(s, c)| match (s, c) {
        (Sym::T(t), Node::T(tok)) => *t == tok.ty,
        (Sym::N(n), Node::N(nm, _)) => r.loaded.tables.non_terminals.get(*n) == Some(nm),
        _ => false,
    })
}

fn post_order<'a>(n: &'a Node, out: &mut Vec<&'a Node>) {
    if let Node::N(_, c) = n {
        for x in c {
            post_order(x, out);
        }
        out.push(n);
    }
}

impl Check for C02 {
    type Case = ParseCase;
    fn id(&self) -> &'static str {
        "C02"
    }
    fn rule(&self) -> String {
        "case = random LL(k)-accepted EBNF grammar x 8 sentences (random derivations, decorated with whitespace/newlines/comments); for each successful parse: the root holds exactly the start symbol, every inner node's non-skip children spell the right-hand side of a production of the transformed grammar (generated PRODUCTIONS table, cross-checked with the transformed Cfg), the recorded semantic-action trace equals the post-order list of inner nodes (same length, production of call i has the node's lhs/rhs, children argument = the node's non-skip children token-for-token), and the leaves are exactly the scanner's tokens. Evaluations = successful parses checked. Non-trivial = tree height >= 3 with >= 1 epsilon production applied; distinct by hash of (grammar, input)".into()
    }
    fn strategy(&self, tier: Tier) -> BoxedStrategy<ParseCase> {
        parse_case_strategy_mode(tier_params(tier, GenParams::ll()), false, 8, true)
    }
    fn cases(&self, tier: Tier) -> u32 {
        tier.pick(8000, 150000)
    }
    fn run(&self, case: &ParseCase, st: &mut Stats) -> Verdict {
        let opts = Opts { max_k: case.max_k, ..Opts::default() };
        let r = match prepare(&case.grammar, &opts) {
            Prep::Ready(r) => r,
            Prep::Rejected(f) => return Verdict::Skip(format!("grammar rejected at {:?}", f.stage())),
            Prep::LoadErr(e) => return Verdict::Broken(format!("cannot load generated source: {e}")),
        };
        let gtext = case.grammar.print();
        let comments = !case.grammar.initial.line_comments.is_empty();
        let (_, prods) = r.loaded.tables.ll.as_ref().unwrap();
        // cross-check generated production table against the transformed Cfg
        let cfg = &r.built.gc.cfg;
        if cfg.pr.len() != prods.len() {
            return Verdict::Fail("C02:production_count_differs".into(), format!("cfg has {} productions, table {}\n{gtext}", cfg.pr.len(), prods.len()));
        }
        for (i, p) in cfg.pr.iter().enumerate() {
            let lhs_ok = r.loaded.tables.non_terminals.get(prods[i].lhs).map(|s| s.as_str()) == Some(p.get_n_str());
            let rhs_ok = p.get_r().len() == prods[i].rhs.len()
                && p.get_r().iter().zip(&prods[i].rhs).all(|(s, t)| match (s, t) {
                    (parol::Symbol::N(n, ..), Sym::N(j)) => r.loaded.tables.non_terminals.get(*j) == Some(n),
                    (parol::Symbol::T(_), Sym::T(_)) => true,
                    _ => false,
                });
            if !lhs_ok || !rhs_ok {
                return Verdict::Fail("C02:production_table_differs_from_cfg".into(), format!("production {i}: cfg `{p}` vs table {:?}\n{gtext}", prods[i]));
            }
        }
        for inp in &case.inputs {
            let text = inp.render(&r.ig.terms, comments);
            let run = interp::run(&r.loaded, &text, &RunOpts::default(), 400_000);
            match &run.outcome {
                Outcome::Ok => {}
                Outcome::Err(..) => {
                    if crate::chart::member(&r.ig, &inp.ids()) {
                        st.class("rejected_sentence(C01's subject)");
                        if std::env::var("PV_DEBUG").is_ok() {
                            eprintln!("REJECTED SENTENCE {text:?}\n{gtext}");
                        }
                    } else {
                        st.class("rejected_non_sentence(truncated derivation)");
                    }
                    continue;
                }
                Outcome::Panic(p) => return Verdict::Fail("C02:parser_panic".into(), format!("{p}\ninput {text:?}\n{gtext}")),
                Outcome::WorkLimit => return Verdict::Fail("C02:unbounded_work".into(), format!("input {text:?}\n{gtext}")),
            }
            st.eval(1);
            let fail = |sig: &str, m: String| Verdict::Fail(format!("C02:{sig}"), format!("{m}\ninput {text:?}\ntrace {:?}\ntree {:?}\n{gtext}", run.trace.actions, run.tree));
            if run.unbalanced {
                return fail("unbalanced_tree_builder_calls", "open/close calls do not nest".into());
            }
            let Some(Node::N(root_name, root_children)) = &run.tree else {
                return fail("no_tree", "successful parse without tree".into());
            };
            if !root_name.is_empty() {
                return fail("root_not_anonymous", format!("root is {root_name:?}"));
            }
            let top = non_skip(&r, root_children);
            let start_name = &r.loaded.tables.non_terminals[r.loaded.tables.start_index];
            if top.len() != 1 || !matches!(top[0], Node::N(n, _) if n == start_name) {
                return fail("root_is_not_start_symbol", format!("root children: {:?}", top.iter().map(|n| match n { Node::N(n, _) => n.clone(), Node::T(t) => t.text.clone() }).collect::<Vec<_>>()));
            }
            if case.grammar.start != *start_name {
                return fail("start_symbol_differs_from_grammar", format!("{start_name} vs {}", case.grammar.start));
            }
            // every inner node is one production
            let mut inner = vec![];
            post_order(top[0], &mut inner);
            let mut eps = 0;
            for n in &inner {
                let Node::N(name, ch) = n else { unreachable!() };
                let ns = non_skip(&r, ch);
                if ns.is_empty() {
                    eps += 1;
                }
                let any = (0..prods.len()).any(|p| matches_rhs(&r, p, name, &ns));
                if !any {
                    return fail("node_is_no_production", format!("node {name} with children {:?} matches no production", ns.iter().map(|c| match c { Node::N(n, _) => n.clone(), Node::T(t) => format!("'{}'", t.text) }).collect::<Vec<_>>()));
                }
            }
            // actions = post-order of inner nodes
            if run.trace.actions.len() != inner.len() {
                return fail("action_count_differs", format!("{} actions for {} inner nodes", run.trace.actions.len(), inner.len()));
            }
            for (i, ((p, args), n)) in run.trace.actions.iter().zip(&inner).enumerate() {
                let Node::N(name, ch) = n else { unreachable!() };
                let ns = non_skip(&r, ch);
                if !matches_rhs(&r, *p, name, &ns) {
                    return fail("action_order_or_production_wrong", format!("action #{i} is production {p} but post-order node #{i} is {name}"));
                }
                let same = args.len() == ns.len()
                    && args.iter().zip(&ns).all(|(a, c)| match (a, c) {
                        (Child::T(t), Node::T(u)) => t == u,
                        (Child::N(n), Node::N(m, _)) => n == m,
                        _ => false,
                    });
                if !same {
                    return fail("action_children_differ", format!("action #{i} (production {p}) got {args:?}"));
                }
            }
            // leaves = scanner tokens
            let toks = match interp::drain(&r.loaded, &text, r.max_k().max(1)) {
                Ok(t) => t,
                Err(e) => return fail("token_stream_failure", e),
            };
            let mut leaves: Vec<&Tok> = vec![];
            run.tree.as_ref().unwrap().leaves(&mut leaves);
            let expect: Vec<&Tok> = toks.iter().filter(|t| t.ty != 0).collect();
            if leaves.len() != expect.len() || leaves.iter().zip(&expect).any(|(a, b)| (a.ty, a.start, a.end, &a.text) != (b.ty, b.start, b.end, &b.text)) {
                return fail("leaves_differ_from_tokens", format!("leaves {:?}\ntokens {:?}", leaves.iter().map(|t| (&t.text, t.ty)).collect::<Vec<_>>(), expect.iter().map(|t| (&t.text, t.ty)).collect::<Vec<_>>()));
            }
            let h = top[0].height();
            st.class(&format!("tree_height={}", h.min(8)));
            if eps > 0 {
                st.class("with_epsilon_production");
            }
            if h >= 3 && eps >= 1 {
                st.nontrivial(hash_of(&(&gtext, &text)));
            }
            st.sample(|| json!({"grammar": gtext, "input": text, "actions": run.trace.actions.iter().map(|(p, _)| *p).collect::<Vec<_>>(), "height": h}));
        }
        Verdict::Pass
    }
}

//! C02 LL(k) parse trees and semantic actions follow the leftmost derivation

use super::common::*;
use crate::engine::*;
use crate::gens::GenParams;
use super::structure::*;
use crate::interp::{self, Outcome, RunOpts};
use crate::loader::Sym;
use crate::pipeline::Opts;
use crate::util::hash_of;
use proptest::strategy::BoxedStrategy;
use serde_json::json;

pub struct C02;

impl Check for C02 {
    type Case = ParseCase;
    fn id(&self) -> &'static str {
        "C02"
    }
    fn rule(&self) -> String {
        "case = random LL(k)-accepted EBNF grammar x 8 sentences (random derivations, decorated with whitespace/newlines/comments); for each successful parse: the root holds exactly the start symbol, every inner node's non-skip children spell the right-hand side of a production of the transformed grammar (generated PRODUCTIONS table, cross-checked with the transformed Cfg), the recorded semantic-action trace equals the post-order list of inner nodes (same length, production of call i has the node's lhs/rhs, children argument = the node's non-skip children token-for-token), and the leaves are exactly the scanner's tokens. Evaluations = successful parses checked. Non-trivial = tree height >= 3 with >= 1 epsilon production applied; distinct by hash of (grammar, input)".into()
    }
    fn strategy(&self, tier: Tier) -> BoxedStrategy<ParseCase> {
        parse_case_strategy_mode(tier_params(tier, GenParams::ll()), false, 8, true)
    }
    fn cases(&self, tier: Tier) -> u32 {
        tier.pick(16000, 300000)
    }
    fn run(&self, case: &ParseCase, st: &mut Stats) -> Verdict {
        let opts = Opts { max_k: case.max_k, ..Opts::default() };
        let r = match prepare(&case.grammar, &opts) {
            Prep::Ready(r) => r,
            Prep::Rejected(f) => return Verdict::Skip(format!("grammar rejected at {:?}", f.stage())),
            Prep::LoadErr(e) => return Verdict::Broken(format!("cannot load generated source: {e}")),
        };
        let gtext = case.grammar.print();
        let comments = !case.grammar.initial.line_comments.is_empty();
        let (_, prods) = r.loaded.tables.ll.as_ref().unwrap();
        // cross-check generated production table against the transformed Cfg
        let cfg = &r.built.gc.cfg;
        if cfg.pr.len() != prods.len() {
            return Verdict::Fail("C02:production_count_differs".into(), format!("cfg has {} productions, table {}\n{gtext}", cfg.pr.len(), prods.len()));
        }
        for (i, p) in cfg.pr.iter().enumerate() {
            let lhs_ok = r.loaded.tables.non_terminals.get(prods[i].lhs).map(|s| s.as_str()) == Some(p.get_n_str());
            let rhs_ok = p.get_r().len() == prods[i].rhs.len()
                && p.get_r().iter().zip(&prods[i].rhs).all(|(s, t)| match (s, t) {
                    (parol::Symbol::N(n, ..), Sym::N(j)) => r.loaded.tables.non_terminals.get(*j) == Some(n),
                    (parol::Symbol::T(_), Sym::T(_)) => true,
                    _ => false,
                });
            if !lhs_ok || !rhs_ok {
                return Verdict::Fail("C02:production_table_differs_from_cfg".into(), format!("production {i}: cfg `{p}` vs table {:?}\n{gtext}", prods[i]));
            }
        }
        for inp in &case.inputs {
            let text = inp.render(&r.ig.terms, comments);
            let run = interp::run(&r.loaded, &text, &RunOpts::default(), 400_000);
            match &run.outcome {
                Outcome::Ok => {}
                Outcome::Err(..) => {
                    if crate::chart::member(&r.ig, &inp.ids()) {
                        st.class("rejected_sentence(C01's subject)");
                        if std::env::var("PV_DEBUG").is_ok() {
                            eprintln!("REJECTED SENTENCE {text:?}\n{gtext}");
                        }
                    } else {
                        st.class("rejected_non_sentence(truncated derivation)");
                    }
                    continue;
                }
                Outcome::Panic(p) => return Verdict::Fail("C02:parser_panic".into(), format!("{p}\ninput {text:?}\n{gtext}")),
                Outcome::WorkLimit => return Verdict::Fail("C02:unbounded_work".into(), format!("input {text:?}\n{gtext}")),
            }
            st.eval(1);
            let fail = |sig: &str, m: String| Verdict::Fail(format!("C02:{sig}"), format!("{m}\ninput {text:?}\ntrace {:?}\ntree {:?}\n{gtext}", run.trace.actions, run.tree));
            let shape = match check_structure(&r, &run, &text, r.max_k()) {
                Ok(s) => s,
                Err((sig, m)) => return fail(&sig, m),
            };
            let (h, eps) = (shape.height, shape.eps);
            st.class(&format!("tree_height={}", h.min(8)));
            if eps > 0 {
                st.class("with_epsilon_production");
            }
            if h >= 3 && eps >= 1 {
                st.nontrivial(hash_of(&(&gtext, &text)));
            }
            st.sample(|| json!({"grammar": gtext, "input": text, "actions": run.trace.actions.iter().map(|(p, _)| *p).collect::<Vec<_>>(), "height": h}));
        }
        Verdict::Pass
    }
}

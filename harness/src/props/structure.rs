//! Structural validation of a successful parse (shared by C02 for LL and C03 for LR):
//! tree nodes are productions of the transformed grammar, the action trace is the post-order
//! of the inner nodes, leaves are the scanner's tokens.

use super::common::*;
use crate::interp::{self, Child, Node, Run, Tok};
use parol::Symbol;

pub fn non_skip<'a>(r: &Ready, c: &'a [Node]) -> Vec<&'a Node> {
    c.iter().filter(|n| !matches!(n, Node::T(t) if r.is_skip_type(t.ty))).collect()
}

/// terminal index of a Cfg terminal symbol as parol numbers it
fn term_index(r: &Ready, s: &Symbol) -> Option<u16> {
    use parol::grammar::cfg::TerminalIndexFn;
    if let Symbol::T(parol::Terminal::Trm(t, k, _, _, _, _, l)) = s {
        Some(r.built.gc.cfg.get_terminal_index_function().terminal_index(t, *k, l))
    } else {
        None
    }
}

/// does `children` (non-skip) spell the right-hand side of production p of the transformed Cfg?
pub fn matches_rhs(r: &Ready, p: usize, name: &str, children: &[&Node], tix: &[Vec<Option<u16>>]) -> bool {
    let cfg = &r.built.gc.cfg;
    let Some(pr) = cfg.pr.get(p) else { return false };
    if pr.get_n_str() != name || pr.get_r().len() != children.len() {
        return false;
    }
    pr.get_r().iter().zip(children).enumerate().all(|(i, (s, c))| match (s, c) {
        (Symbol::T(_), Node::T(tok)) => tix[p][i] == Some(tok.ty),
        (Symbol::N(n, ..), Node::N(nm, _)) => n == nm,
        _ => false,
    })
}

pub fn post_order<'a>(n: &'a Node, out: &mut Vec<&'a Node>) {
    if let Node::N(_, c) = n {
        for x in c {
            post_order(x, out);
        }
        out.push(n);
    }
}

pub struct Shape {
    pub height: usize,
    pub eps: usize,
    pub inner: usize,
}

fn describe(ns: &[&Node]) -> Vec<String> {
    ns.iter().map(|c| match c { Node::N(n, _) => n.clone(), Node::T(t) => format!("'{}'", t.text) }).collect()
}

/// Ok(shape) or Err((signature suffix, message))
pub fn check_structure(r: &Ready, run: &Run, text: &str, k: usize) -> Result<Shape, (String, String)> {
    let cfg = &r.built.gc.cfg;
    let tix: Vec<Vec<Option<u16>>> = cfg.pr.iter().map(|p| p.get_r().iter().map(|s| term_index(r, s)).collect()).collect();
    if run.unbalanced {
        return Err(("unbalanced_tree_builder_calls".into(), "open/close calls do not nest".into()));
    }
    let Some(Node::N(root_name, root_children)) = &run.tree else {
        return Err(("no_tree".into(), "successful parse without tree".into()));
    };
    if !root_name.is_empty() {
        return Err(("root_not_anonymous".into(), format!("root is {root_name:?}")));
    }
    let top = non_skip(r, root_children);
    let start_name = cfg.get_start_symbol();
    if top.len() != 1 || !matches!(top[0], Node::N(n, _) if n == start_name) {
        return Err(("root_is_not_start_symbol".into(), format!("root children: {:?}, start symbol {start_name}", describe(&top))));
    }
    if r.loaded.tables.non_terminals.get(r.loaded.tables.start_index).map(|s| s.as_str()) != Some(start_name) {
        return Err(("start_index_differs".into(), format!("generated start index names {:?}, grammar start is {start_name}", r.loaded.tables.non_terminals.get(r.loaded.tables.start_index))));
    }
    let mut inner = vec![];
    post_order(top[0], &mut inner);
    let mut eps = 0;
    for n in &inner {
        let Node::N(name, ch) = n else { unreachable!() };
        let ns = non_skip(r, ch);
        if ns.is_empty() {
            eps += 1;
        }
        if !(0..cfg.pr.len()).any(|p| matches_rhs(r, p, name, &ns, &tix)) {
            return Err(("node_is_no_production".into(), format!("node {name} with children {:?} matches no production", describe(&ns))));
        }
    }
    if run.trace.actions.len() != inner.len() {
        return Err(("action_count_differs".into(), format!("{} actions for {} inner nodes", run.trace.actions.len(), inner.len())));
    }
    for (i, ((p, args), n)) in run.trace.actions.iter().zip(&inner).enumerate() {
        let Node::N(name, ch) = n else { unreachable!() };
        let ns = non_skip(r, ch);
        if !matches_rhs(r, *p, name, &ns, &tix) {
            return Err(("action_order_or_production_wrong".into(), format!("action #{i} is production {p} but post-order node #{i} is {name} with children {:?}", describe(&ns))));
        }
        let same = args.len() == ns.len()
            && args.iter().zip(&ns).all(|(a, c)| match (a, c) {
                (Child::T(t), Node::T(u)) => t == u,
                (Child::N(n), Node::N(m, _)) => n == m,
                _ => false,
            });
        if !same {
            return Err(("action_children_differ".into(), format!("action #{i} (production {p}) got {args:?}")));
        }
    }
    let toks = interp::drain(&r.loaded, text, k.max(1)).map_err(|e| ("token_stream_failure".to_string(), e))?;
    let mut leaves: Vec<&Tok> = vec![];
    run.tree.as_ref().unwrap().leaves(&mut leaves);
    let expect: Vec<&Tok> = toks.iter().filter(|t| t.ty != 0).collect();
    if leaves.len() != expect.len() || leaves.iter().zip(&expect).any(|(a, b)| (a.ty, a.start, a.end, &a.text) != (b.ty, b.start, b.end, &b.text)) {
        return Err((
            "leaves_differ_from_tokens".into(),
            format!("leaves {:?}\ntokens {:?}", leaves.iter().map(|t| (&t.text, t.ty)).collect::<Vec<_>>(), expect.iter().map(|t| (&t.text, t.ty)).collect::<Vec<_>>()),
        ));
    }
    Ok(Shape { height: top[0].height(), eps, inner: inner.len() })
}

//! C01 LL(k) parsers accept exactly the language of the grammar (recovery on and off)

use super::common::*;
use crate::chart;
use crate::engine::*;
use crate::gens::GenParams;
use crate::interp::{self, Outcome, RunOpts};
use crate::pipeline::Opts;
use crate::util::hash_of;
use proptest::strategy::BoxedStrategy;
use serde_json::json;

pub struct C01;

impl Check for C01 {
    type Case = ParseCase;
    fn id(&self) -> &'static str {
        "C01"
    }
    fn rule(&self) -> String {
        "case = random EBNF grammar (<=6 non-terminals, <=8 whitespace-separable terminals, groups/optionals/repetitions nested <=2) x lookahead limit K in {1,2,3,5,10} x 12 inputs (sentences by random derivation, 1-2 token mutations of sentences incl. foreign tokens, random strings), each decorated with whitespace/newlines/comments and parsed with recovery on and off by the real runtime over tables loaded from parol's generated source; oracle = fixpoint chart recogniser over the generator's EBNF AST applied to the token sequence the real scanner produced. Evaluations = parser runs. Non-trivial = (grammar, input) pair where the grammar was accepted as LL(k), has >=2 non-terminals or >=1 EBNF construct or needed k>=2, and the input has >=2 tokens; distinct by hash of (grammar text, input text)".into()
    }
    fn strategy(&self, tier: Tier) -> BoxedStrategy<ParseCase> {
        parse_case_strategy_la(tier_params(tier, GenParams::ll()), false, 12)
    }
    fn cases(&self, tier: Tier) -> u32 {
        tier.pick(16000, 400000)
    }
    fn assumptions(&self) -> Vec<String> {
        vec![
            "the interpretive loader executes the generated tables exactly as rustc-compiled code would (validated separately by the compiled-parser differential of C22/C23)".into(),
            "terminals are whitespace-separable literals; scanner behaviour on other terminal shapes is C13's subject".into(),
        ]
    }
    fn run(&self, case: &ParseCase, st: &mut Stats) -> Verdict {
        let opts = Opts { max_k: case.max_k, ..Opts::default() };
        let r = match prepare(&case.grammar, &opts) {
            Prep::Ready(r) => r,
            Prep::Rejected(f) => {
                if std::env::var("PV_DUMP_REJ").map(|v| f.msg().contains(&v)).unwrap_or(false) {
                    eprintln!("REJECTED {}\n{}", f.msg(), case.grammar.print());
                }
                return Verdict::Skip(format!("grammar rejected at {:?}{} {}", f.stage(), if f.is_panic() { " (panic, see C26)" } else { "" }, if std::env::var("PV_DEBUG").is_ok() { crate::util::trunc(f.msg(), 60) } else { String::new() }));
            }
            Prep::LoadErr(e) => return Verdict::Broken(format!("cannot load generated source: {e}\n{}", case.grammar.print())),
        };
        let k = r.max_k();
        st.class(&format!("accepted/k={k}"));
        let gtext = case.grammar.print();
        let interesting_grammar = case.grammar.nts().len() >= 2 || case.grammar.count_constructs() >= 1 || k >= 2;
        let comments = !case.grammar.initial.line_comments.is_empty();
        let mut seen_acc = false;
        let mut seen_rej = false;
        for inp in &case.inputs {
            let text = inp.render(&r.ig.terms, comments);
            // the token sequence as the real scanner sees it
            let toks = match interp::drain(&r.loaded, &text, k.max(1)) {
                Ok(t) => t,
                Err(e) => {
                    return Verdict::Fail("C01:token_stream_failure".into(), format!("draining the token stream failed: {e}\ninput {text:?}\n{gtext}"));
                }
            };
            let actual: Vec<usize> =
                toks.iter().filter(|t| t.ty != 0 && !r.is_skip_type(t.ty)).map(|t| r.back(t.ty)).collect();
            if actual != inp.ids() {
                st.class("scanner_sequence_differs_from_intended");
            }
            if actual.len() > 60 {
                continue;
            }
            let expected = chart::member(&r.ig, &actual);
            for recovery in [true, false] {
                let o = RunOpts { recovery, ..RunOpts::default() };
                let run = interp::run(&r.loaded, &text, &o, 200_000);
                st.eval(1);
                let got = match &run.outcome {
                    Outcome::Ok => true,
                    Outcome::Err(..) => false,
                    Outcome::Panic(p) => {
                        return Verdict::Fail(
                            "C01:parser_panic".into(),
                            format!("parser panicked: {p}\nrecovery={recovery} input {text:?}\n{gtext}"),
                        );
                    }
                    Outcome::WorkLimit => {
                        return Verdict::Fail("C01:unbounded_work".into(), format!("work limit hit, recovery={recovery} input {text:?}\n{gtext}"));
                    }
                };
                st.class(&format!("{}/recovery={}", if expected { "sentence" } else { "non-sentence" }, recovery));
                if got != expected {
                    let sig = if got { "C01:accepts_non_sentence" } else { "C01:rejects_sentence" };
                    return Verdict::Fail(
                        sig.into(),
                        format!(
                            "parser verdict {got} but oracle says member={expected}; recovery={recovery} K={} k={k}\ninput {text:?}\ntokens {:?}\noutcome {:?}\n{gtext}",
                            case.max_k, actual, run.outcome
                        ),
                    );
                }
            }
            if expected { seen_acc = true } else { seen_rej = true }
            if interesting_grammar && actual.len() >= 2 {
                st.nontrivial(hash_of(&(&gtext, &text)));
            }
            st.sample(|| json!({"grammar": gtext, "K": case.max_k, "k": k, "input": text, "member": expected}));
        }
        if seen_acc && seen_rej {
            st.class("grammar_with_both_verdicts");
        }
        grammar_features(&case.grammar, st);
        Verdict::Pass
    }
}

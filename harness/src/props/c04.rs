//! C04 LALR(1) conflicts are always reported and resolution stays sound

use super::common::*;
use crate::chart;
use crate::engine::*;
use crate::ffref::Bnf;
use crate::gens::GenParams;
use crate::interp::{self, Outcome, RunOpts};
use crate::lalr_ref;
use crate::pipeline::{self, Fail, Opts};
use crate::util::hash_of;
use proptest::strategy::{BoxedStrategy, Strategy};
use serde_json::json;

pub struct C04;

impl Check for C04 {
    type Case = ParseCase;
    fn id(&self) -> &'static str {
        "C04"
    }
    fn rule(&self) -> String {
        "case = random EBNF grammar typed lalr(1), half of them without the LL bias (ambiguous expression shapes, dangling optionals, reduce/reduce pairs, cyclic rules) x 8 inputs; oracle (a): reference canonical-LR(1)-merged-by-core construction on the canonicalized user grammar; if it finds a conflict parol must return an error or a non-empty resolved-conflict list (a panic is neither); the converse (spurious conflicts) is only counted; oracle (b): for tables built with resolved conflicts every accepted input must be a member by the chart recogniser. Evaluations = grammars judged + parser runs on conflict-resolved tables. Non-trivial = grammar that is not LALR(1) by the reference; distinct by grammar text".into()
    }
    fn strategy(&self, tier: Tier) -> BoxedStrategy<ParseCase> {
        let mut p = tier_params(tier, GenParams::lr());
        p.max_nt = 4;
        p.max_t = 5;
        let mut q = p.clone();
        q.ll_bias = false;
        q.fix_nullable_bodies = false;
        q.max_nt = 3;
        q.max_alts = 2;
        q.max_len = 3;
        q.max_depth = 1;
        proptest::strategy::Union::new(vec![parse_case_strategy(p, true, 8), parse_case_strategy(q, true, 8)]).boxed()
    }
    fn cases(&self, tier: Tier) -> u32 {
        tier.pick(40000, 500000)
    }
    fn run(&self, case: &ParseCase, st: &mut Stats) -> Verdict {
        let gtext = case.grammar.print();
        let gc0 = match pipeline::read_grammar(&gtext) {
            Ok(g) => g,
            Err(f) => return Verdict::Skip(format!("grammar rejected at {:?}", f.stage())),
        };
        // productivity / reachability problems are rejected before table construction
        if !parol::analysis::non_productive_non_terminals(&gc0.cfg).is_empty() {
            return Verdict::Skip("non-productive (C11's subject)".into());
        }
        let bnf = Bnf::from_cfg(&gc0.cfg);
        let t0 = std::time::Instant::now();
        let Ok(reference) = lalr_ref::analyse(&bnf, 1500) else { return Verdict::Skip("reference too expensive".into()) };
        if std::env::var("PV_DEBUG").is_ok() && t0.elapsed().as_secs_f64() > 1.0 {
            eprintln!("REF SLOW {:.1}s states {} prods {}", t0.elapsed().as_secs_f64(), reference.lr1_states, bnf.prods.len());
        }
        let not_lalr = !reference.conflicts.is_empty();
        st.eval(1);
        let prep = prepare(&case.grammar, &Opts::default());
        let r = match prep {
            Prep::Ready(r) => r,
            Prep::Rejected(Fail::Panic(stage, msg)) => {
                if not_lalr {
                    let sig = if bnf.is_cyclic() && msg.contains("unreachable") {
                        "C04:panic_instead_of_rejection:cyclic_grammar"
                    } else {
                        "C04:panic_instead_of_rejection"
                    };
                    return Verdict::Fail(
                        sig.into(),
                        format!("grammar is not LALR(1) ({:?}) but parol panics at {stage:?} instead of rejecting it: {msg}\n{gtext}", reference.conflicts.first()),
                    );
                }
                return Verdict::Skip("panic on an LALR(1) grammar (C03's subject)".into());
            }
            Prep::Rejected(f) => {
                if not_lalr {
                    st.class("not_lalr/rejected");
                    st.nontrivial(hash_of(&gtext));
                } else {
                    st.class(&format!("lalr_by_reference/rejected_at_{:?}(statistic)", f.stage()));
                }
                return Verdict::Pass;
            }
            Prep::LoadErr(e) => return Verdict::Broken(format!("cannot load generated source: {e}\n{gtext}")),
        };
        let resolved = r.built.lr.as_ref().map(|l| l.1.len()).unwrap_or(0);
        if not_lalr {
            st.nontrivial(hash_of(&gtext));
            if resolved == 0 {
                // are duplicate alternatives the only reason?
                let dedup = bnf.without_duplicates();
                let only_dups = dedup.prods.len() < bnf.prods.len()
                    && lalr_ref::analyse(&dedup, 1500).map(|r| r.conflicts.is_empty()).unwrap_or(false);
                return Verdict::Fail(
                    if only_dups { "C04:conflict_not_reported:duplicate_alternatives" } else { "C04:conflict_not_reported" }.into(),
                    format!("reference finds {:?} (LR(1) conflicts: {}) but parol built a table without reporting any conflict\n{gtext}", reference.conflicts.first(), reference.lr1_conflicts),
                );
            }
            st.class("not_lalr/resolved_conflicts_reported");
        } else if resolved > 0 {
            st.class("lalr_by_reference/conflicts_reported(statistic)");
        } else {
            st.class("lalr/clean");
        }
        if resolved > 0 {
            let comments = !case.grammar.initial.line_comments.is_empty();
            for inp in &case.inputs {
                let text = inp.render(&r.ig.terms, comments);
                let Ok(toks) = interp::drain(&r.loaded, &text, 1) else { continue };
                let actual: Vec<usize> = toks.iter().filter(|t| t.ty != 0 && !r.is_skip_type(t.ty)).map(|t| r.back(t.ty)).collect();
                if actual.len() > 60 {
                    continue;
                }
                let run = interp::run(&r.loaded, &text, &RunOpts::default(), 20_000);
                st.eval(1);
                match &run.outcome {
                    Outcome::Ok => {
                        st.class("resolved_table/accepted_input");
                        if !chart::member(&r.ig, &actual) {
                            return Verdict::Fail(
                                "C04:resolved_table_accepts_non_sentence".into(),
                                format!("input {text:?} tokens {actual:?} accepted by the conflict-resolved parser but is no sentence\n{gtext}"),
                            );
                        }
                    }
                    Outcome::Err(..) => st.class("resolved_table/rejected_input"),
                    Outcome::Panic(p) => {
                        return Verdict::Fail("C04:resolved_table_parser_panics".into(), format!("{p}\ninput {text:?}\n{gtext}"));
                    }
                    Outcome::WorkLimit => {
                        // the conflict-resolved table loops on empty reductions: termination is C19's subject
                        st.class("resolved_table/work_limit(C19's subject)");
                        break;
                    }
                }
            }
        }
        st.sample(|| json!({"grammar": gtext, "reference_conflicts": reference.conflicts.len(), "parol_resolved_conflicts": resolved}));
        Verdict::Pass
    }
}

//! C06 FIRST_k and FOLLOW_k sets match their definitions, in any request order

use super::ana::*;
use crate::engine::*;
use crate::ffref::{self, Bnf};
use crate::util::{guard, hash_of};
use parol::analysis::{FirstCache, FollowCache};
use proptest::strategy::{BoxedStrategy, Strategy};
use serde_json::json;

pub struct C06;

impl Check for C06 {
    type Case = AnaCase;
    fn id(&self) -> &'static str {
        "C06"
    }
    fn rule(&self) -> String {
        "case = random productive, reachable, left-recursion-free grammar (as parol transforms it) x a history of 1-5 cache requests (FIRST or FOLLOW, k in 1..=10 bounded so (|T|+1)^k <= 6000, any order, on one shared FirstCache/FollowCache); after every request the returned sets (per production and per non-terminal) are compared as sets of terminal strings with a reference least-fixpoint computation from the definitions (end of input in FOLLOW of the start symbol), and with the result of the same request on fresh caches. Evaluations = sets compared. Non-trivial = history with k >= 2 in which some set holds strings of different lengths; histories that request a larger k before a smaller one are counted as a class; distinct by (grammar, history)".into()
    }
    fn strategy(&self, tier: Tier) -> BoxedStrategy<AnaCase> {
        proptest::strategy::Union::new(vec![ana_strategy(tier, true), ana_strategy(tier, false)]).boxed()
    }
    fn cases(&self, tier: Tier) -> u32 {
        tier.pick(15000, 250000)
    }
    fn run(&self, case: &AnaCase, st: &mut Stats) -> Verdict {
        let gc = match transformed(&case.grammar) {
            Ok(g) => g,
            Err(e) => return Verdict::Skip(e),
        };
        let bnf = Bnf::from_cfg(&gc.cfg);
        let gtext = format!("{}\ntransformed:\n{}", case.grammar.print(), render_bnf(&bnf));
        let fc = FirstCache::new();
        let foc = FollowCache::new();
        let mut budget = 3_000_000i64;
        let mut mixed_len = false;
        let mut max_k = 0;
        let mut descending = false;
        let mut prev_k = 0;
        for (step, (is_follow, k)) in case.history.iter().enumerate() {
            let k = *k;
            max_k = max_k.max(k);
            if k < prev_k {
                descending = true;
            }
            prev_k = k;
            let Ok((fp, fnt)) = ffref::first_k(&bnf, k, &mut budget) else { return Verdict::Skip("reference too expensive".into()) };
            let ctx = |what: &str| format!("step {step} of history {:?}: {what} k={k}\n{gtext}", case.history);
            if !*is_follow {
                for (shared, cache) in [(true, &fc), (false, &FirstCache::new())] {
                    let got = match guard(|| cache.get(k, &gc)) {
                        Ok(g) => g,
                        Err(p) => return Verdict::Fail("C06:first_panics".into(), format!("{p}\n{}", ctx("FIRST"))),
                    };
                    let got = got.borrow();
                    if got.productions.len() != fp.len() || got.non_terminals.len() != fnt.len() {
                        return Verdict::Fail("C06:first_shape".into(), ctx("FIRST result has wrong number of entries"));
                    }
                    for (i, want) in fp.iter().enumerate() {
                        st.eval(1);
                        let (have, n) = to_set(&got.productions[i]);
                        if n != have.len() {
                            st.class("duplicate_packed_representations");
                        }
                        if &have != want {
                            let sig = if shared { "C06:first_of_production_differs" } else { "C06:first_of_production_differs_fresh_cache" };
                            return Verdict::Fail(sig.into(), format!("FIRST_{k} of production {i}: {}\n{}", diff_sets(&have, want), ctx("FIRST")));
                        }
                        mixed_len |= want.iter().map(|s| s.len()).collect::<std::collections::BTreeSet<_>>().len() > 1;
                    }
                    for (i, want) in fnt.iter().enumerate() {
                        st.eval(1);
                        let (have, _) = to_set(&got.non_terminals[i]);
                        if &have != want {
                            let sig = if shared { "C06:first_of_non_terminal_differs" } else { "C06:first_of_non_terminal_differs_fresh_cache" };
                            return Verdict::Fail(sig.into(), format!("FIRST_{k}({}): {}\n{}", bnf.nts[i], diff_sets(&have, want), ctx("FIRST")));
                        }
                    }
                }
            } else {
                let Ok(fo) = ffref::follow_k(&bnf, k, &fnt, &mut budget) else { return Verdict::Skip("reference too expensive".into()) };
                for shared in [true, false] {
                    let fresh_f = FirstCache::new();
                    let fresh_fo = FollowCache::new();
                    let (f, o) = if shared { (&fc, &foc) } else { (&fresh_f, &fresh_fo) };
                    let got = match guard(|| o.get(k, &gc, f)) {
                        Ok(g) => g,
                        Err(p) => return Verdict::Fail("C06:follow_panics".into(), format!("{p}\n{}", ctx("FOLLOW"))),
                    };
                    let got = got.borrow();
                    let sets = &got.verif_follow_set().non_terminals;
                    if sets.len() != fo.len() {
                        return Verdict::Fail("C06:follow_shape".into(), ctx("FOLLOW result has wrong number of entries"));
                    }
                    for (i, want) in fo.iter().enumerate() {
                        st.eval(1);
                        let (have, _) = to_set(&sets[i]);
                        if &have != want {
                            let sig = if shared { "C06:follow_differs" } else { "C06:follow_differs_fresh_cache" };
                            return Verdict::Fail(sig.into(), format!("FOLLOW_{k}({}): {}\n{}", bnf.nts[i], diff_sets(&have, want), ctx("FOLLOW")));
                        }
                        mixed_len |= want.iter().map(|s| s.len()).collect::<std::collections::BTreeSet<_>>().len() > 1;
                    }
                }
            }
        }
        if descending {
            st.class("history_with_larger_k_before_smaller");
        }
        st.class(&format!("max_k={max_k}"));
        if max_k >= 2 && mixed_len {
            st.nontrivial(hash_of(&(case.grammar.print(), &case.history)));
        }
        st.sample(|| json!({"grammar": case.grammar.print(), "history(is_follow,k)": case.history}));
        Verdict::Pass
    }
}

//! C14 Tokens and parse trees are lossless

use super::c13::{load_case, show_toks};
use super::scan::*;
use crate::engine::*;
use crate::interp::{self, Outcome, RunOpts, Tok};
use crate::rx::{T_INVALID, pos_ref};
use crate::util::hash_of;
use proptest::strategy::{BoxedStrategy, Strategy};
use serde_json::json;

pub struct C14;

impl Check for C14 {
    type Case = ScanCase;
    fn id(&self) -> &'static str {
        "C14"
    }
    fn rule(&self) -> String {
        "case = scanner grammar as in C13 (regex terminals, several scanner states, comments, auto newline/whitespace on/off, %allow_unmatched), generated as ll(k) and as lalr(1), x 6 inputs with CR / LF / CRLF mixes, tabs, BMP and astral non-ASCII characters in comments and unmatched gaps; oracle: the tokens drained from the real TokenStream (significant, skipped, comments, gaps) are contiguous from offset 0 to the input length, each token's text is the input slice of its span, the texts concatenate to the input, start/end (line, column) equal an independent position function (1-based, columns count characters, only LF starts a line, end = position of the next character), and the leaves of a successful parse tree are exactly these tokens in order. Evaluations = inputs. Non-trivial = input with >= 1 newline and >= 1 comment or unmatched gap; distinct by (grammar, input)".into()
    }
    fn strategy(&self, _tier: Tier) -> BoxedStrategy<ScanCase> {
        let ll = ScanParams::default();
        let lr = ScanParams { lr: true, ..ScanParams::default() };
        proptest::strategy::Union::new(vec![scan_case_strategy(ll, 6), scan_case_strategy(lr, 6)]).boxed()
    }
    fn cases(&self, tier: Tier) -> u32 {
        tier.pick(50000, 800000)
    }
    fn run(&self, c: &ScanCase, st: &mut Stats) -> Verdict {
        let (l, text) = match load_case(c) {
            Ok(x) => x,
            Err(v) => return v,
        };
        for input in &c.inputs {
            st.eval(1);
            let toks = match interp::drain(&l, input, 1) {
                Ok(t) => t,
                Err(e) => return Verdict::Fail("C14:token_stream_failure".into(), format!("{e}\ninput {input:?}\n{text}")),
            };
            let toks: Vec<&Tok> = toks.iter().filter(|t| t.ty != 0).collect();
            let ctx = || format!("input {input:?}\ntokens {}\n{text}", show_toks(&toks.iter().map(|t| (t.ty, t.start, t.end)).collect::<Vec<_>>(), input));
            let mut pos = 0usize;
            for t in &toks {
                if t.start != pos {
                    return Verdict::Fail("C14:tokens_not_contiguous".into(), format!("token {:?} starts at {} but the previous one ended at {pos}\n{}", t.text, t.start, ctx()));
                }
                if input.get(t.start..t.end) != Some(t.text.as_str()) {
                    return Verdict::Fail("C14:token_text_differs_from_span".into(), format!("token text {:?} span {}..{}\n{}", t.text, t.start, t.end, ctx()));
                }
                let (sl, sc) = pos_ref(input, t.start);
                let (el, ec) = pos_ref(input, t.end);
                if (t.sl, t.sc, t.el, t.ec) != (sl, sc, el, ec) {
                    // scnr2 restores its character iterator without the last character after a failed or
                    // speculative match; positions behind a line feed it backtracked over are off
                    fn can_match_lf(r: &crate::rx::Rx) -> bool {
                        use crate::rx::Rx;
                        match r {
                            Rx::Lit(c) => *c == '\n',
                            Rx::Class(rs, neg) => rs.iter().any(|(a, b)| *a <= '\n' && '\n' <= *b) != *neg,
                            Rx::Dot => false,
                            Rx::Seq(v) | Rx::Alt(v) => v.iter().any(can_match_lf),
                            Rx::Star(x) | Rx::Plus(x) | Rx::Opt(x) => can_match_lf(x),
                        }
                    }
                    let with_la = c.terms.iter().any(|t| t.lookahead.is_some());
                    let pattern_eats_lf = c.terms.iter().any(|t| can_match_lf(&t.rx));
                    let unmatched_lf = toks.iter().any(|u| u.ty == T_INVALID && (u.text.contains('\n') || (u.start > 0 && input.as_bytes()[u.start - 1] == b'\n')));
                    let sig = if input.contains('\n') && (with_la || pattern_eats_lf || unmatched_lf) {
                        "C14:token_position_wrong:scnr2_backtracking_over_line_feed"
                    } else if t.ty == T_INVALID {
                        "C14:gap_token_position_wrong"
                    } else {
                        "C14:token_position_wrong"
                    };
                    return Verdict::Fail(sig.into(), format!("token {:?} (type {}) at {}..{} reports {}:{}-{}:{}, text says {sl}:{sc}-{el}:{ec}\n{}", t.text, t.ty, t.start, t.end, t.sl, t.sc, t.el, t.ec, ctx()));
                }
                pos = t.end;
            }
            if pos != input.len() {
                return Verdict::Fail("C14:tokens_do_not_cover_input".into(), format!("tokens end at {pos}, input has {} bytes\n{}", input.len(), ctx()));
            }
            let run = interp::run(&l, input, &RunOpts::default(), 100_000);
            match (&run.outcome, &run.tree) {
                (Outcome::Ok, Some(tree)) => {
                    let mut leaves: Vec<&Tok> = vec![];
                    tree.leaves(&mut leaves);
                    if leaves.len() != toks.len() || leaves.iter().zip(&toks).any(|(a, b)| (a.ty, a.start, a.end, &a.text, a.sl, a.sc, a.el, a.ec) != (b.ty, b.start, b.end, &b.text, b.sl, b.sc, b.el, b.ec)) {
                        return Verdict::Fail("C14:tree_leaves_differ_from_tokens".into(), format!("leaves {}\n{}", show_toks(&leaves.iter().map(|t| (t.ty, t.start, t.end)).collect::<Vec<_>>(), input), ctx()));
                    }
                    st.class(if c.lr { "tree_checked/LR" } else { "tree_checked/LL" });
                }
                (Outcome::Panic(p), _) => return Verdict::Fail("C14:parser_panic".into(), format!("{p}\n{}", ctx())),
                _ => {}
            }
            let has_nl = input.contains('\n');
            let has_comment = toks.iter().any(|t| t.ty == 3 || t.ty == 4);
            let has_gap = toks.iter().any(|t| t.ty == T_INVALID);
            if has_gap {
                st.class("with_gap");
            }
            if !input.is_ascii() {
                st.class("non_ascii");
            }
            if has_nl && (has_comment || has_gap) {
                st.nontrivial(hash_of(&(&text, input)));
            }
            st.sample(|| json!({"grammar": text, "input": input}));
        }
        Verdict::Pass
    }
}

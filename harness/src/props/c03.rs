//! C03 LALR(1) parsers accept exactly the language and build a derivation

use super::common::*;
use super::structure::*;
use crate::chart;
use crate::engine::*;
use crate::gens::GenParams;
use crate::interp::{self, Outcome, RunOpts};
use crate::pipeline::{Fail, Opts, Stage};
use crate::util::hash_of;
use proptest::strategy::BoxedStrategy;
use serde_json::json;

pub struct C03;

pub fn lr_case_strategy(tier: Tier, n_inputs: usize) -> BoxedStrategy<ParseCase> {
    parse_case_strategy(tier_params(tier, GenParams::lr()), true, n_inputs)
}

impl Check for C03 {
    type Case = ParseCase;
    fn id(&self) -> &'static str {
        "C03"
    }
    fn rule(&self) -> String {
        "case = random EBNF grammar with %grammar_type 'lalr(1)' (left recursion and recursive start symbols allowed, <=6 non-terminals, <=7 terminals) x 10 inputs (sentences, mutants with foreign tokens, random strings; decorated with whitespace/comments); domain = grammars for which parol builds a table without error and without resolved conflicts; a panic anywhere in the pipeline is a violation; parser verdict must equal the chart recogniser's verdict on the scanner's token sequence; on success tree and action trace must be a derivation: root = start symbol of the (augmented) grammar, every inner node one production, reductions = post-order of inner nodes (reverse rightmost derivation) each once with its children, leaves = all tokens. Evaluations = parser runs. Non-trivial = grammar that is left-recursive or uses its start symbol on a right-hand side, input with >= 2 tokens; distinct by (grammar, input)".into()
    }
    fn strategy(&self, tier: Tier) -> BoxedStrategy<ParseCase> {
        parse_case_strategy_la(tier_params(tier, GenParams::lr()), true, 10)
    }
    fn cases(&self, tier: Tier) -> u32 {
        tier.pick(40000, 600000)
    }
    fn run(&self, case: &ParseCase, st: &mut Stats) -> Verdict {
        let gtext = case.grammar.print();
        let r = match prepare(&case.grammar, &Opts::default()) {
            Prep::Ready(r) => r,
            Prep::Rejected(Fail::Panic(stage, msg)) if stage >= Stage::Transform => {
                // the crash clause is about grammars that are LALR(1): ask the reference
                let is_lalr = crate::pipeline::read_grammar(&gtext)
                    .ok()
                    .and_then(|gc0| crate::lalr_ref::analyse(&crate::ffref::Bnf::from_cfg(&gc0.cfg), 4000).ok())
                    .map(|r| r.conflicts.is_empty());
                if is_lalr != Some(true) {
                    return Verdict::Skip("panic on a grammar that is not LALR(1) (C04/C26's subject)".into());
                }
                return Verdict::Fail(
                    format!("C03:pipeline_panics_at_{stage:?}"),
                    format!("{msg}\n{gtext}"),
                );
            }
            Prep::Rejected(f) => return Verdict::Skip(format!("grammar rejected at {:?}", f.stage())),
            Prep::LoadErr(e) => return Verdict::Broken(format!("cannot load generated source: {e}\n{gtext}")),
        };
        let conflicts = r.built.lr.as_ref().map(|l| l.1.len()).unwrap_or(0);
        if conflicts > 0 {
            return Verdict::Skip("resolved conflicts reported (C04's subject)".into());
        }
        let start_used = {
            let mut used = false;
            for p in &r.built.gc0.cfg.pr {
                used |= p.get_r().iter().any(|s| s.get_n_ref() == Some(r.built.gc0.cfg.get_start_symbol()));
            }
            used
        };
        let left_rec = !parol::detect_left_recursive_non_terminals(&r.built.gc0.cfg).is_empty();
        if start_used {
            st.class("start_symbol_used_on_rhs");
        }
        if left_rec {
            st.class("left_recursive");
        }
        st.class("accepted_conflict_free");
        if r.ig.terms.iter().any(|t| t.lookahead.is_some()) {
            st.class("grammar_with_lookahead_variants_of_a_terminal");
        }
        let comments = !case.grammar.initial.line_comments.is_empty();
        for inp in &case.inputs {
            let text = inp.render(&r.ig.terms, comments);
            let toks = match interp::drain(&r.loaded, &text, 1) {
                Ok(t) => t,
                Err(e) => return Verdict::Fail("C03:token_stream_failure".into(), format!("{e}\ninput {text:?}\n{gtext}")),
            };
            let actual: Vec<usize> = toks.iter().filter(|t| t.ty != 0 && !r.is_skip_type(t.ty)).map(|t| r.back(t.ty)).collect();
            if actual.len() > 60 {
                continue;
            }
            let expected = chart::member(&r.ig, &actual);
            let run = interp::run(&r.loaded, &text, &RunOpts::default(), 400_000);
            st.eval(1);
            let got = match &run.outcome {
                Outcome::Ok => true,
                Outcome::Err(..) => false,
                Outcome::Panic(p) => return Verdict::Fail("C03:parser_panic".into(), format!("{p}\ninput {text:?}\n{gtext}")),
                Outcome::WorkLimit => return Verdict::Fail("C03:unbounded_work".into(), format!("input {text:?}\n{gtext}")),
            };
            st.class(if expected { "sentence" } else { "non-sentence" });
            if got != expected {
                let sig = if got { "C03:accepts_non_sentence" } else { "C03:rejects_sentence" };
                return Verdict::Fail(sig.into(), format!("parser verdict {got}, oracle member={expected}\ninput {text:?}\ntokens {actual:?}\noutcome {:?}\n{gtext}", run.outcome));
            }
            if got {
                if let Err((sig, m)) = check_structure(&r, &run, &text, 1) {
                    return Verdict::Fail(format!("C03:{sig}"), format!("{m}\ninput {text:?}\ntrace {:?}\ntree {:?}\n{gtext}", run.trace.actions, run.tree));
                }
            }
            if (start_used || left_rec) && actual.len() >= 2 {
                st.nontrivial(hash_of(&(&gtext, &text)));
            }
            st.sample(|| json!({"grammar": gtext, "input": text, "member": expected}));
        }
        Verdict::Pass
    }
}

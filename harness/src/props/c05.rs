//! C05 LL(k) decision: accept iff strong-LL(k), with the minimal lookahead

use super::ana::*;
use crate::engine::*;
use crate::ffref::{self, Bnf};
use crate::util::{guard, hash_of};
use parol::analysis::{FirstCache, FollowCache, decidable, explain_conflicts};
use proptest::strategy::{BoxedStrategy, Strategy};
use serde_json::json;

pub struct C05;

impl Check for C05 {
    type Case = AnaCase;
    fn id(&self) -> &'static str {
        "C05"
    }
    fn rule(&self) -> String {
        "case = random grammar (EBNF and plain BNF, <=6 non-terminals, <=6 terminals), read and transformed by parol (left-recursive/non-productive ones are out of domain), x limit K in 1..=10 (bounded so (|T|+1)^K <= 6000); oracle = reference strong-LL(k) decision computed from set-of-strings FIRST_k/FOLLOW_k fixpoints: per non-terminal `decidable` must return the reference's minimal k (error iff none <= K), `calculate_lookahead_dfas` must succeed iff every non-terminal is decidable, each automaton's k must equal the longest reference lookahead string, and on rejection `explain_conflicts` must name only really overlapping production pairs (and at least one). Evaluations = non-terminals compared. Non-trivial = grammar with a non-terminal whose minimal k >= 2, or rejected at K >= 2; distinct by grammar text and K".into()
    }
    fn strategy(&self, tier: Tier) -> BoxedStrategy<AnaCase> {
        proptest::strategy::Union::new(vec![ana_strategy(tier, true), ana_strategy(tier, false)]).boxed()
    }
    fn cases(&self, tier: Tier) -> u32 {
        tier.pick(18000, 300000)
    }
    fn run(&self, case: &AnaCase, st: &mut Stats) -> Verdict {
        let gc = match transformed(&case.grammar) {
            Ok(g) => g,
            Err(e) => return Verdict::Skip(e),
        };
        let bnf = Bnf::from_cfg(&gc.cfg);
        let kk = case.max_k;
        let mut budget = 3_000_000i64;
        let Ok(dec) = ffref::decide(&bnf, kk, &mut budget) else { return Verdict::Skip("reference too expensive".into()) };
        let gtext = format!("{}\ntransformed:\n{}", case.grammar.print(), render_bnf(&bnf));
        let fc = FirstCache::new();
        let foc = FollowCache::new();
        let mut interesting = false;
        for (nt, name) in bnf.nts.iter().enumerate() {
            st.eval(1);
            let got = match guard(|| decidable(&gc, name, kk, &fc, &foc)) {
                Ok(r) => r.ok(),
                Err(p) => return Verdict::Fail("C05:decidable_panics".into(), format!("{p}\n{gtext}")),
            };
            let want = dec.k_of[nt];
            if got != want {
                return Verdict::Fail(
                    if got.is_some() != want.is_some() { "C05:decidability_differs" } else { "C05:minimal_k_differs" }.into(),
                    format!("non-terminal {name}: parol says k={got:?}, reference says {want:?} (K={kk})\n{gtext}"),
                );
            }
            match want {
                Some(k) if k >= 2 => {
                    interesting = true;
                    st.class(&format!("nt_min_k={k}"));
                }
                None => st.class("nt_undecidable_at_K"),
                _ => {}
            }
        }
        let all_ok = dec.k_of.iter().all(|k| k.is_some());
        let dfas = match guard(|| parol::calculate_lookahead_dfas(&gc, kk)) {
            Ok(r) => r,
            Err(p) => return Verdict::Fail("C05:analysis_panics".into(), format!("{p}\n{gtext}")),
        };
        match (&dfas, all_ok) {
            (Ok(d), true) => {
                st.class("grammar_accepted");
                for (nt, name) in bnf.nts.iter().enumerate() {
                    let k = dec.k_of[nt].unwrap();
                    let want_len = if k == 0 {
                        0
                    } else {
                        bnf.prods_of(nt).iter().flat_map(|p| dec.la[&k][*p].iter().map(|s| s.len())).max().unwrap_or(0)
                    };
                    let Some(dfa) = d.get(name) else {
                        return Verdict::Fail("C05:automaton_missing".into(), format!("no automaton for {name}\n{gtext}"));
                    };
                    if dfa.k != want_len {
                        return Verdict::Fail(
                            "C05:automaton_k_differs".into(),
                            format!("non-terminal {name}: automaton k={} but longest reference lookahead string has {want_len} tokens (minimal k {k})\n{gtext}", dfa.k),
                        );
                    }
                }
            }
            (Err(_), false) => {
                st.class("grammar_rejected");
                if kk >= 2 {
                    interesting = true;
                }
                // every undecidable non-terminal: explain_conflicts names really overlapping pairs
                for (nt, name) in bnf.nts.iter().enumerate() {
                    if dec.k_of[nt].is_some() {
                        continue;
                    }
                    let ex = match guard(|| explain_conflicts(&gc, name, kk, &fc, &foc)) {
                        Ok(Ok(e)) => e,
                        Ok(Err(e)) => return Verdict::Fail("C05:explain_conflicts_errs".into(), format!("{e}\n{gtext}")),
                        Err(p) => return Verdict::Fail("C05:explain_conflicts_panics".into(), format!("{p}\n{gtext}")),
                    };
                    if ex.is_empty() {
                        return Verdict::Fail("C05:no_conflict_named".into(), format!("{name} is undecidable at K={kk} but explain_conflicts returns nothing\n{gtext}"));
                    }
                    for (p1, _, p2, _) in &ex {
                        let la = &dec.la[&kk];
                        if p1 == p2 || bnf.prods[*p1].0 != nt || bnf.prods[*p2].0 != nt || ffref::disjoint(&la[*p1], &la[*p2]) {
                            return Verdict::Fail(
                                "C05:conflict_named_without_overlap".into(),
                                format!("{name}: productions {p1} and {p2} reported in conflict at K={kk} but their reference lookahead sets are disjoint\n{gtext}"),
                            );
                        }
                    }
                }
            }
            (Ok(_), false) => {
                return Verdict::Fail("C05:accepts_non_strong_llk".into(), format!("parol accepts at K={kk}, reference minimal k per non-terminal {:?}\n{gtext}", dec.k_of));
            }
            (Err(e), true) => {
                return Verdict::Fail("C05:rejects_strong_llk".into(), format!("parol rejects at K={kk} ({e}), reference minimal k per non-terminal {:?}\n{gtext}", dec.k_of));
            }
        }
        if interesting {
            st.nontrivial(hash_of(&(case.grammar.print(), kk)));
        }
        st.sample(|| json!({"grammar": case.grammar.print(), "K": kk, "reference_min_k": bnf.nts.iter().zip(&dec.k_of).map(|(n, k)| format!("{n}:{k:?}")).collect::<Vec<_>>()}));
        Verdict::Pass
    }
}

//! C22 generated Rust code compiles; C23 the typed AST mirrors the input.
//! Both use the batch compile engine (`gencrate`): one case = a batch of grammars, so that rustc,
//! the slow oracle, is started once per batch.  proptest shrinks a failing batch by switching
//! grammars off and by shrinking the choice tapes of the remaining one.

use crate::ast::*;
use crate::chart::{self, Tape};
use crate::dbgparse::{self, Ev};
use crate::deriv::{self, Found, XEv};
use crate::engine::*;
use crate::gencrate::{self, Gen, Mode, Spec};
use crate::gens::{self, GenParams, InTok, Input};
use crate::pipeline::{self, Opts};
use crate::util::hash_of;
use proptest::prelude::*;
use proptest::strategy::BoxedStrategy;
use serde::{Deserialize, Serialize};
use serde_json::json;

#[derive(Clone, Debug, Serialize, Deserialize)]
pub struct AstCase {
    pub on: bool,
    pub grammar: Grammar,
    pub max_k: usize,
    pub trim: bool,
    pub minimize: bool,
    pub range: bool,
    pub inputs: Vec<Input>,
}

pub type Batch = Vec<AstCase>;

fn one(tier: Tier, n_inputs: usize) -> BoxedStrategy<AstCase> {
    (
        proptest::bool::weighted(0.98),
        tape(40..140),
        tape(30..90),
        proptest::sample::select(vec![1usize, 2, 3, 3, 5]),
        0u8..8,
        0u8..3,
        proptest::collection::vec(tape(12..48), n_inputs..=n_inputs),
    )
        .prop_map(move |(on, gt, at, k, optbits, kind, its)| {
            let lr = kind == 2;
            let mut p = if lr { GenParams::lr() } else { GenParams::ll() };
            p.comments = false;
            p.hostile_names = true;
            if tier == Tier::Thorough {
                p.max_nt += 1;
                p.max_len += 1;
            }
            // LL(k): most random EBNF grammars are not LL(k) for small k; up to 8 grammars are decoded
            // from the same tape (first choices perturbed) and the first one parol accepts is used
            let mut grammar = Grammar::new("S", vec![]);
            for attempt in 0..8u16 {
                let mut gt2 = gt.clone();
                for (i, v) in gt2.iter_mut().enumerate().take(12) {
                    *v = v.wrapping_add(attempt.wrapping_mul(7919).wrapping_mul(i as u16 + 1));
                }
                let mut t = Tape { data: &gt2, pos: 0 };
                grammar = gens::grammar(&mut t, &p);
                if lr {
                    grammar.gtype = Some(GType::LALR);
                }
                // the first attempts insist on optional / repeated parts, which are what the AST
                // checks are about
                let has_constructs = grammar.prods.iter().any(|p| has_opt_or_rep(&p.alts));
                if attempt < 6 && !has_constructs {
                    continue;
                }
                let o = Opts { max_k: k.min(3), ..Opts::default() };
                match pipeline::build(&grammar.print(), &o) {
                    Ok(b) if b.lr.as_ref().map(|l| l.1.is_empty()).unwrap_or(true) => break,
                    _ => {}
                }
            }
            if lr {
                grammar.gtype = Some(GType::LALR);
            }
            let mut t2 = Tape { data: &at, pos: 0 };
            gens::ast_annotate(&mut grammar, &mut t2);
            // a third of the grammars get a non-terminal whose alternatives share a prefix symbol
            // (left factoring has to happen) while one alternative carries other AST control on it
            if t2.next(3) == 2 {
                add_prefix_family(&mut grammar, &mut t2);
            }
            let ig = IGrammar::from(&grammar);
            let h = chart::min_heights(&ig);
            let inputs: Vec<Input> = its.iter().map(|t| gens::input_mode(&ig, &h, t, true)).collect();
            let nt = (ig.terms.len() + 1) as f64;
            let kmax = ((6000f64).ln() / nt.ln()).floor() as usize;
            AstCase {
                on,
                grammar,
                max_k: if lr { 1 } else { k.min(kmax.max(1)) },
                trim: optbits & 1 != 0,
                minimize: optbits & 2 != 0,
                range: optbits & 4 != 0,
                inputs,
            }
        })
        .boxed()
}

/// `S: .. | 'lfk' LfX;  LfX: LfN 'lfp' | LfN 'lfq' | LfN^ 'lfr';  LfN: 'lfn';` with the AST control
/// (clip, member name, user type) either on the odd alternative or on the two that share the prefix
fn add_prefix_family(g: &mut Grammar, t: &mut Tape) {
    if g.prods.iter().any(|p| p.lhs == "LfX" || p.lhs == "LfN") {
        return;
    }
    let deco = |k: usize| -> Ann {
        match k {
            0 => Ann { clip: true, ..Ann::default() },
            1 => Ann { member: Some("m".into()), ..Ann::default() },
            _ => Ann { utype: Some("crate::types::Num".into()), ..Ann::default() },
        }
    };
    let d = deco(t.next(3));
    let on_pair = t.next(2) == 1;
    let occ = |a: &Ann| Factor::N { name: "LfN".into(), ann: a.clone() };
    let (pair, odd) = if on_pair { (d.clone(), Ann::default()) } else { (Ann::default(), d.clone()) };
    let mut alts = vec![vec![occ(&pair), Factor::t("lfp")], vec![occ(&pair), Factor::t("lfq")], vec![occ(&odd), Factor::t("lfr")]];
    // the odd one in front, in the middle or at the end
    let pos = t.next(3);
    let x = alts.remove(2);
    alts.insert(pos, x);
    g.prods.push(Prod { lhs: "LfX".into(), alts });
    g.prods.push(Prod { lhs: "LfN".into(), alts: vec![vec![Factor::t("lfn")]] });
    let start = g.start.clone();
    if let Some(p) = g.prods.iter_mut().find(|p| p.lhs == start) {
        p.alts.push(vec![Factor::t("lfk"), Factor::n("LfX")]);
    }
}

fn has_opt_or_rep(a: &Alts) -> bool {
    a.iter().flatten().any(|f| match f {
        Factor::Opt(_) | Factor::Rep(_) => true,
        Factor::Group(x) => has_opt_or_rep(x),
        _ => false,
    })
}

fn batch(tier: Tier, size: usize, n_inputs: usize) -> BoxedStrategy<Batch> {
    proptest::collection::vec(one(tier, n_inputs), size..=size).boxed()
}

fn features(g: &Grammar) -> Vec<&'static str> {
    let mut clip = false;
    let mut member = false;
    let mut utype = g.t_type.is_some() || !g.nt_types.is_empty();
    let mut opt = false;
    let mut rep = false;
    let mut nested = false;
    fn walk(a: &Alts, depth: usize, f: &mut dyn FnMut(&Factor, usize)) {
        for alt in a {
            for x in alt {
                f(x, depth);
                if let Factor::Group(y) | Factor::Opt(y) | Factor::Rep(y) = x {
                    walk(y, depth + 1, f);
                }
            }
        }
    }
    for p in &g.prods {
        walk(&p.alts, 0, &mut |f, d| match f {
            Factor::T { ann, .. } | Factor::N { ann, .. } => {
                clip |= ann.clip;
                member |= ann.member.is_some();
                utype |= ann.utype.is_some();
            }
            Factor::Opt(_) => {
                opt = true;
                nested |= d > 0;
            }
            Factor::Rep(_) => {
                rep = true;
                nested |= d > 0;
            }
            Factor::Group(_) => nested |= d > 0,
        });
    }
    let mut v = vec![];
    for (b, n) in [(clip, "clip"), (member, "member_name"), (utype, "user_type"), (opt, "optional"), (rep, "repetition"), (nested, "nested_construct")] {
        if b {
            v.push(n);
        }
    }
    v
}

/// cheap in-process pre-check: does parol accept the grammar, and (LR) without resolved conflicts?
enum Pre {
    Accepted { conflicts: usize, cyclic: bool },
    Rejected,
    Panicked(String),
}

fn precheck(c: &AstCase) -> Pre {
    let o = Opts { max_k: c.max_k, trim: c.trim, minimize_boxed: c.minimize, range: c.range, ..Opts::default() };
    match pipeline::build(&c.grammar.print(), &o) {
        Ok(b) => Pre::Accepted { conflicts: b.lr.as_ref().map(|l| l.1.len()).unwrap_or(0), cyclic: crate::ffref::Bnf::from_cfg(&b.gc.cfg).is_cyclic() },
        Err(f) if f.is_panic() => Pre::Panicked(f.msg().to_string()),
        Err(f) => {
            if std::env::var("PV_DEBUG").is_ok() {
                eprintln!("REJ lr={} {:?}: {}", c.grammar.is_lr(), f.stage(), crate::util::trunc(&f.msg().replace('\n', " "), 100));
            }
            Pre::Rejected
        }
    }
}

fn spec_of(c: &AstCase) -> Spec {
    Spec { par: c.grammar.print(), max_k: c.max_k, trim: c.trim, minimize: c.minimize, range: c.range }
}

fn normalize_msg(m: &str) -> String {
    // identifiers and types inside back quotes are case specific
    let mut out = String::new();
    let mut inside = false;
    for ch in m.chars() {
        if ch == '`' {
            inside = !inside;
            if inside {
                out.push_str("`_");
            } else {
                out.push('`');
            }
        } else if !inside {
            out.push(ch);
        }
    }
    out.chars().take(90).collect::<String>().replace(' ', "_")
}

fn tag(id: &str) -> String {
    format!("{id}-{}", std::env::var("VERIF_TIER_EFFECTIVE").unwrap_or_else(|_| "quick".into()))
}

/// the failing grammar of the last batch, for `minimize`
static LAST_FAIL: std::sync::Mutex<Option<(String, AstCase)>> = std::sync::Mutex::new(None);

/// all one-step simplifications of a case
fn reductions(c: &AstCase) -> Vec<AstCase> {
    let mut out = vec![];
    let mut push = |f: &dyn Fn(&mut AstCase)| {
        let mut n = c.clone();
        f(&mut n);
        out.push(n);
    };
    if c.trim {
        push(&|n| n.trim = false);
    }
    if c.minimize {
        push(&|n| n.minimize = false);
    }
    if c.range {
        push(&|n| n.range = false);
    }
    if c.inputs.len() > 1 {
        for i in 0..c.inputs.len() {
            push(&|n| {
                n.inputs.remove(i);
            });
        }
    }
    if c.grammar.t_type.is_some() {
        push(&|n| n.grammar.t_type = None);
    }
    for i in 0..c.grammar.nt_types.len() {
        push(&|n| {
            n.grammar.nt_types.remove(i);
        });
    }
    // productions: drop an unused one, drop an alternative
    for (pi, p) in c.grammar.prods.iter().enumerate() {
        if p.lhs != c.grammar.start {
            let used = c.grammar.prods.iter().enumerate().any(|(j, q)| j != pi && uses(&q.alts, &p.lhs));
            if !used {
                push(&|n| {
                    n.grammar.prods.remove(pi);
                });
            }
        }
        if p.alts.len() > 1 {
            for ai in 0..p.alts.len() {
                push(&|n| {
                    n.grammar.prods[pi].alts.remove(ai);
                });
            }
        }
    }
    // factors, addressed by a path of indices
    let mut paths = vec![];
    for (pi, p) in c.grammar.prods.iter().enumerate() {
        collect_paths(&p.alts, &mut vec![pi], &mut paths);
    }
    for path in &paths {
        // remove the factor
        push(&|n| edit(&mut n.grammar, path, &|alt, i| {
            alt.remove(i);
        }));
        // flatten a construct to the content of its first alternative / remove annotations
        push(&|n| edit(&mut n.grammar, path, &|alt, i| match alt[i].clone() {
            Factor::Group(a) | Factor::Opt(a) | Factor::Rep(a) => {
                let first = a.into_iter().next().unwrap_or_default();
                alt.splice(i..=i, first);
            }
            Factor::T { term, states, .. } => alt[i] = Factor::T { term, states, ann: Ann::default() },
            Factor::N { name, .. } => alt[i] = Factor::N { name, ann: Ann::default() },
        }));
    }
    // token indices of the inputs refer to `grammar.terms()`: re-index them for the reduced grammar
    // and drop inputs that use a terminal which no longer exists
    let old_terms = c.grammar.terms();
    for n in out.iter_mut() {
        let new_terms = n.grammar.terms();
        if new_terms.len() == old_terms.len() && new_terms.iter().zip(&old_terms).all(|(a, b)| a.identity() == b.identity()) {
            continue;
        }
        let map: Vec<Option<usize>> = old_terms.iter().map(|t| new_terms.iter().position(|x| x.identity() == t.identity())).collect();
        n.inputs = n
            .inputs
            .iter()
            .filter_map(|i| {
                let toks: Option<Vec<InTok>> = i
                    .toks
                    .iter()
                    .map(|t| match t {
                        InTok::T(k) => map.get(*k).copied().flatten().map(InTok::T),
                        InTok::Foreign => Some(InTok::Foreign),
                    })
                    .collect();
                toks.map(|toks| Input { toks, seps: i.seps.clone() })
            })
            .collect();
    }
    out.retain(|n| n.grammar != c.grammar || n.trim != c.trim || n.minimize != c.minimize || n.range != c.range || n.inputs.len() != c.inputs.len());
    out
}

fn uses(a: &Alts, name: &str) -> bool {
    a.iter().flatten().any(|f| match f {
        Factor::N { name: n, .. } => n == name,
        Factor::Group(x) | Factor::Opt(x) | Factor::Rep(x) => uses(x, name),
        _ => false,
    })
}

/// path = [production, alternative, factor, (alternative, factor)*]
fn collect_paths(a: &Alts, prefix: &mut Vec<usize>, out: &mut Vec<Vec<usize>>) {
    for (ai, alt) in a.iter().enumerate() {
        for (fi, f) in alt.iter().enumerate() {
            prefix.push(ai);
            prefix.push(fi);
            out.push(prefix.clone());
            if let Factor::Group(x) | Factor::Opt(x) | Factor::Rep(x) = f {
                collect_paths(x, prefix, out);
            }
            prefix.pop();
            prefix.pop();
        }
    }
}

fn edit(g: &mut Grammar, path: &[usize], f: &dyn Fn(&mut Alt, usize)) {
    let Some(p) = g.prods.get_mut(path[0]) else { return };
    let mut alts: &mut Alts = &mut p.alts;
    let mut k = 1;
    loop {
        let (ai, fi) = (path[k], path[k + 1]);
        let Some(alt) = alts.get_mut(ai) else { return };
        if k + 2 >= path.len() {
            if fi < alt.len() {
                f(alt, fi);
            }
            return;
        }
        match alt.get_mut(fi) {
            Some(Factor::Group(x)) | Some(Factor::Opt(x)) | Some(Factor::Rep(x)) => alts = x,
            _ => return,
        }
        k += 2;
    }
}

/// greedy grammar-level minimisation: a reduction is kept when the single-grammar batch still
/// fails with the same signature
fn minimize_with<C: Check<Case = Batch>>(chk: &C, sig: &str, budget: usize) -> Option<Batch> {
    let (s0, mut cur) = LAST_FAIL.lock().unwrap().clone()?;
    if s0 != sig {
        return None;
    }
    cur.on = true;
    let mut st = Stats::default();
    let mut left = budget;
    // the single case must reproduce at all
    match chk.run(&vec![cur.clone()], &mut st) {
        Verdict::Fail(s, _) if s == sig => {}
        _ => return None,
    }
    'outer: loop {
        for cand in reductions(&cur) {
            if left == 0 {
                break 'outer;
            }
            if !matches!(precheck(&cand), Pre::Accepted { .. }) {
                continue;
            }
            left -= 1;
            if let Verdict::Fail(s, _) = chk.run(&vec![cand.clone()], &mut st) {
                if s == sig {
                    cur = cand;
                    continue 'outer;
                }
            }
        }
        break;
    }
    Some(vec![cur])
}

pub struct C22;

impl Check for C22 {
    type Case = Batch;
    fn id(&self) -> &'static str {
        "C22"
    }
    fn rule(&self) -> String {
        "case = batch of random EBNF grammars (2/3 LL(k) with k limit 1..5, 1/3 LALR(1); helper-looking non-terminal names; clipping, member names, user types on occurrences, %nt_type, %t_type, %user_type alias; options trim / minimize boxed types / range drawn independently); every grammar parol's Builder (the build-script API) accepts becomes a crate with the generated parser and trait/adapter/AST files, a generic user grammar implementing every action of the generated trait, and user types implementing TryFrom<&T> and ToSpan; the whole batch is type-checked by `cargo check` against /repo's parol_runtime; a compiler error attributed to a crate is a violation with that grammar as replay. Out of domain and left out by construction: non-terminal names that are Rust keywords, prelude or runtime type names (C33's recorded findings). Evaluations = crates type-checked. Non-trivial = grammar using >= 2 of {clip, member name, user type, optional, repetition, nested construct}; distinct by grammar text and options".into()
    }
    fn strategy(&self, tier: Tier) -> BoxedStrategy<Batch> {
        batch(tier, tier.pick(96, 160), 0)
    }
    fn cases(&self, tier: Tier) -> u32 {
        tier.pick(2, 40)
    }
    fn shards(&self, _tier: Tier) -> usize {
        1
    }
    fn max_shrink_iters(&self) -> u32 {
        0
    }
    fn minimize(&self, _b: &Batch, sig: &str) -> Option<Batch> {
        minimize_with(self, sig, 60)
    }
    fn assumptions(&self) -> Vec<String> {
        vec![
            "rustc's type checker (cargo check) is the oracle; no code is run".into(),
            "user types are the harness's crate::types::{Num, Tok}, which implement TryFrom<&T> for every T: Debug and parol_runtime::ToSpan".into(),
        ]
    }
    fn run(&self, b: &Batch, st: &mut Stats) -> Verdict {
        let known = load_known("C22");
        let mut idx = vec![];
        let mut specs = vec![];
        for (i, c) in b.iter().enumerate() {
            if !c.on {
                continue;
            }
            match precheck(c) {
                Pre::Accepted { .. } => {
                    idx.push(i);
                    specs.push(spec_of(c));
                }
                Pre::Rejected => st.class("grammar_rejected_by_parol"),
                Pre::Panicked(_) => st.class("parol_panicked(C26's subject)"),
            }
        }
        if specs.is_empty() {
            return Verdict::Skip("no accepted grammar in the batch".into());
        }
        let outs = match gencrate::build_batch(&tag("C22"), &specs, Mode::Check) {
            Ok(o) => o,
            Err(e) => return Verdict::Broken(e),
        };
        let mut first: Option<(String, String)> = None;
        for (o, &i) in outs.iter().zip(&idx) {
            let c = &b[i];
            let f = features(&c.grammar);
            let fail: Option<(String, String)> = match (&o.generated, &o.compile) {
                (Gen::Rejected(e), _) => {
                    // accepted by the in-process pipeline, rejected by the Builder: option handling differs
                    st.class("rejected_by_builder_only");
                    let _ = e;
                    None
                }
                (Gen::Panic(p), _) => {
                    st.class("builder_panicked(C26's subject)");
                    let _ = p;
                    None
                }
                (Gen::BadSource(e), _) => Some(("C22:generated_source_is_not_rust".into(), e.clone())),
                (Gen::Ok(_), Some(Err(ce))) => Some((format!("C22:rustc:{}:{}", ce.code, normalize_msg(&ce.message)), ce.rendered.clone())),
                (Gen::Ok(_), Some(Ok(()))) => {
                    st.eval(1);
                    st.class(if c.grammar.is_lr() { "compiled/lalr1" } else { "compiled/llk" });
                    for x in &f {
                        st.class(&format!("feature/{x}"));
                    }
                    for (on, n) in [(c.trim, "trim"), (c.minimize, "minimize_boxed"), (c.range, "range")] {
                        if on {
                            st.class(&format!("option/{n}"));
                        }
                    }
                    if f.len() >= 2 {
                        st.nontrivial(hash_of(&(c.grammar.print(), c.trim, c.minimize, c.range)));
                        st.sample(|| json!({"grammar": c.grammar.print(), "options": {"trim": c.trim, "minimize_boxed": c.minimize, "range": c.range, "max_k": c.max_k}, "features": f}));
                    }
                    None
                }
                (Gen::Ok(_), None) => None,
            };
            if let Some((sig, msg)) = fail {
                if let Some(k) = known.iter().find(|k| k.signature == sig) {
                    let e = st.known.entry(sig).or_insert((0, k.description.clone()));
                    e.0 += 1;
                } else if first.is_none() {
                    *LAST_FAIL.lock().unwrap() = Some((sig.clone(), c.clone()));
                    first = Some((sig, format!("{msg}\noptions: trim={} minimize_boxed={} range={} max_k={}\n{}", c.trim, c.minimize, c.range, c.max_k, c.grammar.print())));
                }
            }
        }
        gencrate::cleanup(&tag("C22"));
        match first {
            Some((s, m)) => Verdict::Fail(s, m),
            None => Verdict::Pass,
        }
    }
}

pub struct C23;

fn expected_events(d: &deriv::Deriv, inp: &Input, spans: &[(usize, usize)], terms: &[Term]) -> Vec<Ev> {
    d.events
        .iter()
        .map(|e| match e {
            XEv::Tok(i) => {
                let text = match &inp.toks[*i] {
                    InTok::T(k) => terms[*k].sample.clone(),
                    InTok::Foreign => gens::FOREIGN.to_string(),
                };
                Ev::Tok { text, start: spans[*i].0, end: spans[*i].1 }
            }
            XEv::Some_ => Ev::Some_,
            XEv::None_ => Ev::None_,
            XEv::Vec(n) => Ev::Vec(*n),
        })
        .collect()
}

impl Check for C23 {
    type Case = Batch;
    fn id(&self) -> &'static str {
        "C23"
    }
    fn rule(&self) -> String {
        "case = batch of random annotated EBNF grammars as in C22 (LL(k) and LALR(1) without resolved conflicts) x 16 sentences each; every crate that compiles is built as a program whose user grammar records (non-terminal, {:?} of the argument) for every user action; domain = inputs with exactly one derivation over the user's EBNF (reference derivation finder, ambiguous sentences left out) which the generated parser accepts; oracle: the start symbol's action is called as often as the start symbol occurs in the derivation (once when it is not used recursively), and the {:?} text of the argument of its last call, read in order, gives exactly the reference event sequence: each non-clipped token (text and byte span), Some/None for every optional part, and the item count followed by the items for every repetition; clipped terminals and everything below a clipped non-terminal absent. Evaluations = accepted inputs compared. Non-trivial = derivation with >= 2 of {optional present, optional absent, repetition with >= 2 items, clipped symbol}; distinct by (grammar, input)".into()
    }
    fn strategy(&self, tier: Tier) -> BoxedStrategy<Batch> {
        batch(tier, tier.pick(64, 128), 16)
    }
    fn cases(&self, tier: Tier) -> u32 {
        tier.pick(2, 30)
    }
    fn shards(&self, _tier: Tier) -> usize {
        1
    }
    fn max_shrink_iters(&self) -> u32 {
        0
    }
    fn minimize(&self, _b: &Batch, sig: &str) -> Option<Batch> {
        minimize_with(self, sig, 40)
    }
    fn assumptions(&self) -> Vec<String> {
        vec![
            "the AST is observed through derived Debug text; user types print the Debug text of the value they were converted from".into(),
            "grammars whose crate does not compile are C22's subject and are skipped here".into(),
        ]
    }
    fn run(&self, b: &Batch, st: &mut Stats) -> Verdict {
        let known = load_known("C23");
        let mut idx = vec![];
        let mut specs = vec![];
        for (i, c) in b.iter().enumerate() {
            if !c.on || !deriv::single_rule_per_nt(&c.grammar) {
                continue;
            }
            match precheck(c) {
                Pre::Accepted { conflicts: 0, cyclic: false } => {
                    idx.push(i);
                    specs.push(spec_of(c));
                }
                Pre::Accepted { cyclic: true, .. } => st.class("cyclic_grammar_accepted(C04's subject)"),
                Pre::Accepted { .. } => st.class("lr_conflicts_resolved(C04's subject)"),
                Pre::Rejected => st.class("grammar_rejected_by_parol"),
                Pre::Panicked(_) => st.class("parol_panicked(C26's subject)"),
            }
        }
        if specs.is_empty() {
            return Verdict::Skip("no accepted grammar in the batch".into());
        }
        let outs = match gencrate::build_batch(&tag("C23"), &specs, Mode::Build) {
            Ok(o) => o,
            Err(e) => return Verdict::Broken(e),
        };
        let mut first: Option<(String, String)> = None;
        let mut broken: Option<String> = None;
        let results: Vec<Option<(String, String)>> = {
            // run the binaries in parallel; stats are merged afterwards
            let slots: Vec<std::sync::Mutex<(Option<(String, String)>, Vec<(String, u64)>, Vec<u64>, Vec<serde_json::Value>, u64, Option<String>)>> =
                outs.iter().map(|_| std::sync::Mutex::new((None, vec![], vec![], vec![], 0, None))).collect();
            let next = std::sync::atomic::AtomicUsize::new(0);
            std::thread::scope(|sc| {
                for _ in 0..16 {
                    sc.spawn(|| {
                        loop {
                            let n = next.fetch_add(1, std::sync::atomic::Ordering::SeqCst);
                            if n >= outs.len() {
                                break;
                            }
                            let r = check_crate(&outs[n], &b[idx[n]]);
                            *slots[n].lock().unwrap() = r;
                        }
                    });
                }
            });
            let mut res = vec![];
            for s in slots {
                let (fail, classes, nontriv, samples, evals, brk) = s.into_inner().unwrap();
                for (c, n) in classes {
                    for _ in 0..n {
                        st.class(&c);
                    }
                }
                for h in nontriv {
                    st.nontrivial(h);
                }
                for s in samples {
                    st.sample(|| s);
                }
                st.eval(evals);
                if brk.is_some() && broken.is_none() {
                    broken = brk;
                }
                res.push(fail);
            }
            res
        };
        for (n, fail) in results.into_iter().enumerate() {
            let Some((sig, msg)) = fail else { continue };
            if let Some(k) = known.iter().find(|k| k.signature == sig) {
                let e = st.known.entry(sig).or_insert((0, k.description.clone()));
                e.0 += 1;
            } else if first.is_none() {
                *LAST_FAIL.lock().unwrap() = Some((sig.clone(), b[idx[n]].clone()));
                first = Some((sig, msg));
            }
        }
        gencrate::cleanup(&tag("C23"));
        if let Some(b) = broken {
            return Verdict::Broken(b);
        }
        match first {
            Some((s, m)) => Verdict::Fail(s, m),
            None => Verdict::Pass,
        }
    }
}

type CrateCheck = (Option<(String, String)>, Vec<(String, u64)>, Vec<u64>, Vec<serde_json::Value>, u64, Option<String>);

fn check_crate(o: &gencrate::CrateOut, c: &AstCase) -> CrateCheck {
    let mut classes: Vec<(String, u64)> = vec![];
    let mut class = |s: &str| {
        if let Some(e) = classes.iter_mut().find(|(k, _)| k == s) {
            e.1 += 1;
        } else {
            classes.push((s.to_string(), 1));
        }
    };
    let mut nontriv = vec![];
    let mut samples = vec![];
    let mut evals = 0u64;
    let gtext = c.grammar.print();
    let ti = match (&o.generated, &o.compile, &o.bin) {
        (Gen::Ok(ti), Some(Ok(())), Some(_)) => ti,
        (Gen::Ok(_), Some(Err(_)), _) => {
            class("crate_does_not_compile(C22's subject)");
            return (None, classes, nontriv, samples, evals, None);
        }
        _ => {
            class("not_generated");
            return (None, classes, nontriv, samples, evals, None);
        }
    };
    let bin = o.bin.as_ref().unwrap();
    let ig = IGrammar::from(&c.grammar);
    let rendered: Vec<(String, Vec<(usize, usize)>)> = c.inputs.iter().map(|i| i.render_spans(&ig.terms, false)).collect();
    let texts: Vec<String> = rendered.iter().map(|r| r.0.clone()).collect();
    let runs = match gencrate::run_bin(bin, &texts, 20) {
        Ok(r) => r,
        Err(e) => {
            class("generated_program_timeout_or_crash");
            let _ = e;
            return (None, classes, nontriv, samples, evals, None);
        }
    };
    let start_calls_name = &c.grammar.start;
    if !ti.methods.iter().any(|(nt, _, _)| nt == start_calls_name) {
        return (
            Some(("C23:no_user_action_for_the_start_symbol".into(), format!("trait methods {:?}\n{gtext}", ti.methods))),
            classes,
            nontriv,
            samples,
            evals,
            None,
        );
    }
    class(if c.grammar.is_lr() { "program/lalr1" } else { "program/llk" });
    for ((inp, (text, spans)), run) in c.inputs.iter().zip(&rendered).zip(&runs) {
        let ids = inp.ids();
        let d = match deriv::derive(&c.grammar, &ig, &ids) {
            Found::Unique(d) => d,
            Found::Ambiguous => {
                if std::env::var("PV_DEBUG").is_ok() {
                    eprintln!("AMBIG input {text:?}\n{gtext}");
                }
                class("input/ambiguous_sentence_left_out");
                continue;
            }
            Found::NoDerivation => {
                class("input/not_a_sentence");
                continue;
            }
            Found::TooComplex => {
                class("input/reference_derivation_search_over_budget");
                continue;
            }
        };
        if let Some(p) = &run.panic {
            return (
                Some(("C23:generated_program_panics".into(), format!("{p}\ninput {text:?}\n{gtext}"))),
                classes,
                nontriv,
                samples,
                evals,
                None,
            );
        }
        if !run.ok {
            if run.err.starts_with("user") {
                return (
                    Some(("C23:adapter_reports_an_error_on_an_accepted_sentence".into(), format!("{}\ninput {text:?}\n{gtext}", crate::util::trunc(&run.err, 600)))),
                    classes,
                    nontriv,
                    samples,
                    evals,
                    None,
                );
            }
            if run.err.starts_with("parser: ParserError(InternalError") {
                // raised by the generated adapter (pop_item!) when the AST stack is out of step
                return (
                    Some(("C23:adapter_reports_an_internal_error_on_an_accepted_sentence".into(), format!("{}\ninput {text:?}\noptions trim={} minimize_boxed={} range={}\n{gtext}", crate::util::trunc(&run.err, 600), c.trim, c.minimize, c.range))),
                    classes,
                    nontriv,
                    samples,
                    evals,
                    None,
                );
            }
            if std::env::var("PV_DEBUG").is_ok() {
                eprintln!("REJECTED-SENTENCE input {text:?} err {}\n{gtext}", crate::util::trunc(&run.err, 300));
            }
            class("input/sentence_rejected_by_parser(C02/C03's subject)");
            continue;
        }
        evals += 1;
        let start_calls: Vec<&(String, String)> = run.calls.iter().filter(|(n, _)| n == start_calls_name).collect();
        if start_calls.len() != d.start_instances {
            return (
                Some((
                    "C23:start_action_call_count".into(),
                    format!("start symbol action called {} times, the derivation has {} instance(s) of the start symbol\ninput {text:?}\n{gtext}", start_calls.len(), d.start_instances),
                )),
                classes,
                nontriv,
                samples,
                evals,
                None,
            );
        }
        if run.calls.last().map(|c| &c.0) != Some(start_calls_name) {
            return (
                Some(("C23:start_action_is_not_the_last_call".into(), format!("calls {:?}\ninput {text:?}\n{gtext}", run.calls.iter().map(|c| &c.0).collect::<Vec<_>>()))),
                classes,
                nontriv,
                samples,
                evals,
                None,
            );
        }
        let dbg = &start_calls.last().unwrap().1;
        let tree = match dbgparse::parse(dbg) {
            Ok(t) => t,
            Err(e) => return (None, classes, nontriv, samples, evals, Some(format!("cannot parse Debug text: {e}\n{dbg}\n{gtext}"))),
        };
        let mut got = vec![];
        dbgparse::events(&tree, &mut got);
        let want = expected_events(&d, inp, spans, &ig.terms);
        if got != want {
            let kind = {
                let gt: Vec<&Ev> = got.iter().filter(|e| matches!(e, Ev::Tok { .. })).collect();
                let wt: Vec<&Ev> = want.iter().filter(|e| matches!(e, Ev::Tok { .. })).collect();
                if gt != wt { "tokens_differ" } else { "optional_or_repetition_structure_differs" }
            };
            return (
                Some((
                    format!("C23:ast_does_not_mirror_input:{kind}"),
                    format!("input {text:?}\nexpected events {want:?}\nAST events      {got:?}\nAST {dbg}\noptions trim={} minimize_boxed={} range={}\n{gtext}", c.trim, c.minimize, c.range),
                )),
                classes,
                nontriv,
                samples,
                evals,
                None,
            );
        }
        let feats = [d.opt_some > 0, d.opt_none > 0, d.max_rep >= 2, d.clipped > 0];
        for (f, n) in feats.iter().zip(["optional_present", "optional_absent", "repetition_ge_2_items", "clipped_symbol"]) {
            if *f {
                class(&format!("derivation/{n}"));
            }
        }
        if d.max_rep >= 3 {
            class("derivation/repetition_ge_3_items");
        }
        if d.start_instances > 1 {
            class("derivation/recursive_start_symbol");
        }
        if feats.iter().filter(|x| **x).count() >= 2 {
            nontriv.push(hash_of(&(&gtext, text)));
            if samples.len() < 2 {
                samples.push(json!({"grammar": gtext, "input": text, "events": format!("{want:?}")}));
            }
        }
    }
    (None, classes, nontriv, samples, evals, None)
}

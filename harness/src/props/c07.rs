//! C07 Lookahead automata encode exactly the lookahead sets
//! C08 Runtime production prediction is exact, also on erroneous input

use super::ana::*;
use crate::engine::*;
use crate::ffref::{self, Bnf, Decision};
use crate::interp;
use crate::loader::{self, LaDfa, Loaded};
use crate::pipeline::{self, Built, Opts};
use crate::util::{guard, hash_of};
use parol::LookaheadDFA;
use proptest::strategy::{BoxedStrategy, Strategy};
use serde_json::json;
use std::collections::{BTreeMap, BTreeSet};

pub struct C07;
pub struct C08;

type Lang = BTreeSet<(Vec<u16>, i32)>;

fn lang_of_trie(d: &LookaheadDFA) -> Result<Lang, String> {
    let mut out = Lang::new();
    let mut stack: Vec<(usize, Vec<u16>)> = vec![(0, vec![])];
    let mut steps = 0;
    while let Some((s, w)) = stack.pop() {
        steps += 1;
        if steps > 200_000 || w.len() > 12 {
            return Err("automaton too large or cyclic".into());
        }
        let st = d.states.get(s).ok_or(format!("state {s} missing"))?;
        if st.id != s {
            return Err(format!("state {s} has id {}", st.id));
        }
        if st.prod_num >= 0 {
            out.insert((w.clone(), st.prod_num));
        }
        if let Some(tr) = d.transitions.get(&s) {
            for (t, to) in tr {
                let mut w2 = w.clone();
                w2.push(*t);
                stack.push((*to, w2));
            }
        }
    }
    Ok(out)
}

/// language of a compiled automaton; also checks determinism and the sort order `eval` relies on
fn lang_of_compiled(d: &LaDfa) -> Result<Lang, String> {
    for w in d.transitions.windows(2) {
        if (w[0].0, w[0].1) >= (w[1].0, w[1].1) {
            return Err(format!("transitions not strictly sorted by (from, terminal): {:?} then {:?}", w[0], w[1]));
        }
    }
    // production of a state is given by every incoming transition and must be consistent
    let mut prod_of: BTreeMap<usize, i32> = BTreeMap::new();
    prod_of.insert(0, d.prod0);
    for t in &d.transitions {
        if let Some(p) = prod_of.insert(t.2, t.3) {
            if p != t.3 && t.2 != 0 {
                return Err(format!("state {} is entered with productions {p} and {}", t.2, t.3));
            }
        }
    }
    let mut out = Lang::new();
    let mut stack: Vec<(usize, Vec<u16>)> = vec![(0, vec![])];
    let mut steps = 0;
    while let Some((s, w)) = stack.pop() {
        steps += 1;
        if steps > 200_000 || w.len() > 12 {
            return Err("automaton too large or cyclic".into());
        }
        let p = if s == 0 && w.is_empty() { d.prod0 } else { *prod_of.get(&s).unwrap_or(&-1) };
        if p >= 0 {
            out.insert((w.clone(), p));
        }
        for t in d.transitions.iter().filter(|t| t.0 == s) {
            let mut w2 = w.clone();
            w2.push(t.1);
            stack.push((t.2, w2));
        }
    }
    Ok(out)
}

fn export_automata(v: &serde_json::Value) -> Result<Vec<(String, LaDfa)>, String> {
    let a = v["lookahead_automata"].as_array().ok_or("no lookahead_automata in export model")?;
    a.iter()
        .map(|d| {
            let tr = d["transitions"]
                .as_array()
                .ok_or("no transitions")?
                .iter()
                .map(|t| {
                    Ok((
                        t["from_state"].as_u64().ok_or("from_state")? as usize,
                        t["term"].as_u64().ok_or("term")? as u16,
                        t["to_state"].as_u64().ok_or("to_state")? as usize,
                        t["prod_num"].as_i64().ok_or("prod_num")? as i32,
                    ))
                })
                .collect::<Result<Vec<_>, String>>()?;
            Ok((
                d["non_terminal_name"].as_str().ok_or("name")?.to_string(),
                LaDfa { prod0: d["prod0"].as_i64().ok_or("prod0")? as i32, transitions: tr, k: d["k"].as_u64().ok_or("k")? as usize },
            ))
        })
        .collect()
}

struct Prepared {
    built: Built,
    bnf: Bnf,
    dec: Decision,
    gtext: String,
}

fn prepare(case: &AnaCase) -> Result<Prepared, Verdict> {
    let opts = Opts { max_k: case.max_k, ..Opts::default() };
    let built = match pipeline::build(&case.grammar.print(), &opts) {
        Ok(b) => b,
        Err(f) => return Err(Verdict::Skip(format!("rejected at {:?}", f.stage()))),
    };
    let bnf = Bnf::from_cfg(&built.gc.cfg);
    let mut budget = 3_000_000i64;
    let Ok(dec) = ffref::decide(&bnf, case.max_k, &mut budget) else { return Err(Verdict::Skip("reference too expensive".into())) };
    if dec.k_of.iter().any(|k| k.is_none()) {
        return Err(Verdict::Skip("reference says not strong-LL(K) although parol accepted (C05's subject)".into()));
    }
    let gtext = format!("{}\ntransformed:\n{}", case.grammar.print(), render_bnf(&bnf));
    Ok(Prepared { built, bnf, dec, gtext })
}

fn expected_lang(p: &Prepared, nt: usize) -> Lang {
    let k = p.dec.k_of[nt].unwrap();
    let mut l = Lang::new();
    for pr in p.bnf.prods_of(nt) {
        if k == 0 {
            l.insert((vec![], pr as i32));
        } else {
            for w in &p.dec.la[&k][pr] {
                l.insert((w.clone(), pr as i32));
            }
        }
    }
    l
}

fn lang_diff(a: &Lang, b: &Lang) -> String {
    let oa: Vec<_> = a.difference(b).take(12).collect();
    let ob: Vec<_> = b.difference(a).take(12).collect();
    format!("only in automaton: {oa:?}; only in reference: {ob:?}")
}

impl Check for C07 {
    type Case = AnaCase;
    fn id(&self) -> &'static str {
        "C07"
    }
    fn rule(&self) -> String {
        "case = random grammar accepted by parol as LL(k) with limit K (bounded so (|T|+1)^K <= 6000); for every non-terminal the set {(token string, production)} accepted from the start state is enumerated by DFS for (i) the un-minimized automaton from calculate_lookahead_dfas, (ii) the minimized automaton in the export model, (iii) the Trans table in the generated source, and each must equal the reference {(w,p) | w in FIRST_k(rhs_p) (+)_k FOLLOW_k(A)} from set-of-strings fixpoints; compiled automata must be deterministic, strictly sorted by (from-state, terminal) and enter each state with one production. Evaluations = automata compared. Non-trivial = non-terminal whose trie has >= 3 states and whose minimized automaton has fewer; distinct by (grammar, K, non-terminal)".into()
    }
    fn strategy(&self, tier: Tier) -> BoxedStrategy<AnaCase> {
        proptest::strategy::Union::new(vec![ana_strategy(tier, true), ana_strategy(tier, false)]).boxed()
    }
    fn cases(&self, tier: Tier) -> u32 {
        tier.pick(24000, 400000)
    }
    fn run(&self, case: &AnaCase, st: &mut Stats) -> Verdict {
        let p = match prepare(case) {
            Ok(p) => p,
            Err(v) => return v,
        };
        let gtext = &p.gtext;
        let dfas = p.built.dfas.as_ref().unwrap();
        let export = match pipeline::export_model(&p.built) {
            Ok(e) => e,
            Err(f) => return Verdict::Fail("C07:export_fails".into(), format!("{}\n{gtext}", f.msg())),
        };
        let exp_auto = match export_automata(&export) {
            Ok(a) => a,
            Err(e) => return Verdict::Fail("C07:export_model_malformed".into(), format!("{e}\n{gtext}")),
        };
        let tables = match loader::read_tables(&p.built.parser_src) {
            Ok(t) => t,
            Err(e) => return Verdict::Broken(format!("cannot read generated source: {e}")),
        };
        let (src_auto, _) = tables.ll.as_ref().unwrap();
        if src_auto.len() != p.bnf.nts.len() || exp_auto.len() != p.bnf.nts.len() || dfas.len() != p.bnf.nts.len() {
            return Verdict::Fail("C07:automaton_count".into(), format!("{} non-terminals, {} tries, {} exported, {} in source\n{gtext}", p.bnf.nts.len(), dfas.len(), exp_auto.len(), src_auto.len()));
        }
        for (nt, name) in p.bnf.nts.iter().enumerate() {
            st.eval(1);
            let want = expected_lang(&p, nt);
            let Some(trie) = dfas.get(name) else {
                return Verdict::Fail("C07:automaton_missing".into(), format!("{name}\n{gtext}"));
            };
            let l1 = match lang_of_trie(trie) {
                Ok(l) => l,
                Err(e) => return Verdict::Fail("C07:trie_malformed".into(), format!("{name}: {e}\n{gtext}")),
            };
            if l1 != want {
                return Verdict::Fail("C07:trie_language_differs".into(), format!("{name}: {}\n{gtext}", lang_diff(&l1, &want)));
            }
            // export model
            let Some((_, ea)) = exp_auto.iter().find(|(n, _)| n == name) else {
                return Verdict::Fail("C07:export_automaton_missing".into(), format!("{name}\n{gtext}"));
            };
            let l2 = match lang_of_compiled(ea) {
                Ok(l) => l,
                Err(e) => return Verdict::Fail("C07:export_automaton_malformed".into(), format!("{name}: {e}\n{gtext}")),
            };
            if l2 != want {
                return Verdict::Fail("C07:minimized_language_differs".into(), format!("{name}: {}\n{gtext}", lang_diff(&l2, &want)));
            }
            // generated source: position = index in NON_TERMINALS
            let Some(idx) = tables.non_terminals.iter().position(|n| n == name) else {
                return Verdict::Fail("C07:non_terminal_missing_in_source".into(), format!("{name}\n{gtext}"));
            };
            let sa = &src_auto[idx];
            let l3 = match lang_of_compiled(sa) {
                Ok(l) => l,
                Err(e) => return Verdict::Fail("C07:source_automaton_malformed".into(), format!("{name}: {e}\n{gtext}")),
            };
            if l3 != want {
                return Verdict::Fail("C07:source_language_differs".into(), format!("{name}: {}\n{gtext}", lang_diff(&l3, &want)));
            }
            let depth = want.iter().map(|(w, _)| w.len()).max().unwrap_or(0);
            if sa.k != depth || ea.k != depth {
                return Verdict::Fail("C07:automaton_depth_differs".into(), format!("{name}: k in source {} / export {} but longest lookahead string has {depth} tokens\n{gtext}", sa.k, ea.k));
            }
            let trie_states = trie.states.len();
            let min_states = sa.transitions.iter().flat_map(|t| [t.0, t.2]).collect::<BTreeSet<_>>().len().max(1);
            if trie_states >= 3 && min_states < trie_states {
                st.nontrivial(hash_of(&(case.grammar.print(), case.max_k, name)));
                st.class("minimization_reduced_states");
            }
            st.class(&format!("depth={depth}"));
        }
        st.sample(|| json!({"grammar": case.grammar.print(), "K": case.max_k}));
        Verdict::Pass
    }
}

/// which production the reference predicts for a token buffer (padded with end of input)
fn predict(want: &Lang, buf: &[u16]) -> Option<i32> {
    for (w, p) in want {
        let ok = w.iter().enumerate().all(|(i, t)| buf.get(i).copied().unwrap_or(0) == *t);
        if ok {
            return Some(*p);
        }
    }
    None
}

impl Check for C08 {
    type Case = AnaCase;
    fn id(&self) -> &'static str {
        "C08"
    }
    fn rule(&self) -> String {
        "case = random LL(k)-accepted grammar x token buffers per non-terminal: every reference lookahead string (up to 24 per non-terminal), each with one token replaced, one known-but-wrong or unmatched token inserted at every position, truncated (end of input inside the window), plus random buffers; each buffer is written as text, scanned by the real scanner into a real TokenStream (k = generated MAX_K) and LookaheadDFA::eval of the automaton loaded from the generated source is called; oracle: Ok(p) iff the token sequence padded with end-of-input begins with a reference lookahead string of p, PredictionError otherwise. Evaluations = eval calls. Non-trivial = buffer that begins with no lookahead string, or automaton depth >= 2; distinct by (grammar, non-terminal, buffer)".into()
    }
    fn strategy(&self, tier: Tier) -> BoxedStrategy<AnaCase> {
        proptest::strategy::Union::new(vec![ana_strategy(tier, true), ana_strategy(tier, false)]).boxed()
    }
    fn cases(&self, tier: Tier) -> u32 {
        tier.pick(24000, 400000)
    }
    fn run(&self, case: &AnaCase, st: &mut Stats) -> Verdict {
        let p = match prepare(case) {
            Ok(p) => p,
            Err(v) => return v,
        };
        let gtext = &p.gtext;
        let l: Loaded = match guard(|| loader::load(&p.built.parser_src)) {
            Ok(Ok(l)) => l,
            Ok(Err(e)) => return Verdict::Broken(format!("cannot load generated source: {e}")),
            Err(e) => return Verdict::Broken(format!("cannot load generated source: panic {e}")),
        };
        // token type -> text, from the scanner macro (simple terminals: the unescaped pattern)
        let mut text_of: BTreeMap<u16, String> = BTreeMap::new();
        let n_names = l.tables.terminal_names.len() as u16;
        for (pat, idx, _) in &l.tables.modes[0].tokens {
            if *idx >= 5 && (*idx as u16) < n_names - 1 {
                let mut s = String::new();
                let mut esc = false;
                for c in pat.chars() {
                    if !esc && c == '\\' {
                        esc = true;
                    } else {
                        s.push(c);
                        esc = false;
                    }
                }
                text_of.insert(*idx as u16, s);
            }
        }
        let err_ty = n_names - 1;
        text_of.insert(err_ty, "~".into());
        let all_types: Vec<u16> = text_of.keys().copied().collect();
        let max_k = l.tables.max_k.unwrap_or(1).max(1);
        let (dfas, _) = l.ll.unwrap();
        let mut tape = crate::chart::Tape { data: &case.tape, pos: 0 };
        for (nt, name) in p.bnf.nts.iter().enumerate() {
            let want = expected_lang(&p, nt);
            let Some(idx) = l.tables.non_terminals.iter().position(|n| n == name) else { continue };
            let depth = want.iter().map(|(w, _)| w.len()).max().unwrap_or(0);
            // buffers
            let mut bufs: BTreeSet<Vec<u16>> = BTreeSet::new();
            let strings: Vec<&Vec<u16>> = want.iter().map(|(w, _)| w).collect();
            let step = (strings.len() / 24).max(1);
            for w in strings.iter().step_by(step).take(24) {
                let w: Vec<u16> = w.iter().copied().filter(|t| *t != 0).collect();
                bufs.insert(w.clone());
                for i in 0..=w.len() {
                    let x = all_types[tape.next(all_types.len())];
                    let mut b = w.clone();
                    b.insert(i, x);
                    bufs.insert(b);
                    if i < w.len() {
                        let mut b = w.clone();
                        b[i] = x;
                        bufs.insert(b);
                        bufs.insert(w[..i].to_vec());
                    }
                }
            }
            for _ in 0..4 {
                let n = tape.next(depth + 2);
                bufs.insert((0..n).map(|_| all_types[tape.next(all_types.len())]).collect());
            }
            for b in bufs {
                let text: String = b.iter().map(|t| text_of[t].as_str()).collect::<Vec<_>>().join(" ");
                let r = guard(|| -> Result<Result<usize, String>, String> {
                    let mut s = interp::new_stream(&l, &text, max_k).map_err(|e| e.to_string())?;
                    let types: Vec<u16> = (0..max_k).map(|i| s.lookahead_token_type(i).unwrap_or(9999)).collect();
                    let want_types: Vec<u16> = (0..max_k).map(|i| b.get(i).copied().unwrap_or(0)).collect();
                    if types != want_types {
                        return Err(format!("scanner produced {types:?} for intended {want_types:?}"));
                    }
                    Ok(dfas[idx].eval(&mut s, idx).map_err(|e| interp::classify_err(&e).0))
                });
                st.eval(1);
                let got = match r {
                    Ok(Ok(g)) => g,
                    Ok(Err(e)) => {
                        st.class("buffer_not_scannable_as_intended");
                        let _ = e;
                        continue;
                    }
                    Err(pn) => return Verdict::Fail("C08:eval_panics".into(), format!("{pn}\nnon-terminal {name} buffer {b:?}\n{gtext}")),
                };
                let exp = predict(&want, &b);
                let ok = match (&got, exp) {
                    (Ok(g), Some(e)) => *g as i32 == e,
                    (Err(c), None) => c == "PredictionError",
                    _ => false,
                };
                if !ok {
                    let sig = match (&got, exp) {
                        (Ok(_), None) => "C08:predicts_without_matching_lookahead",
                        (Err(_), Some(_)) => "C08:prediction_error_despite_match",
                        (Ok(_), Some(_)) => "C08:wrong_production",
                        _ => "C08:wrong_error_kind",
                    };
                    return Verdict::Fail(
                        sig.into(),
                        format!("non-terminal {name} (automaton k={}), tokens {b:?} then end of input: eval gives {got:?}, reference {exp:?}; lookahead strings {:?}\n{gtext}", dfas[idx].k, want.iter().take(30).collect::<Vec<_>>()),
                    );
                }
                if exp.is_none() {
                    st.class("buffer_without_match");
                } else {
                    st.class("buffer_with_match");
                }
                if exp.is_none() || depth >= 2 {
                    st.nontrivial(hash_of(&(case.grammar.print(), name, &b)));
                }
            }
        }
        st.sample(|| json!({"grammar": case.grammar.print(), "K": case.max_k}));
        Verdict::Pass
    }
}

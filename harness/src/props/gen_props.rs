//! C24 deterministic generation, C25 PAR rendering round trip, C26 never panics, C33 identifiers

use super::trans::GCase;
use crate::ast::*;
use crate::chart::{self, Tape};
use crate::engine::*;
use crate::gens::{self, GenParams};
use crate::pipeline::{self, Opts};
use crate::util::{guard, hash_of};
use proptest::prelude::*;
use proptest::strategy::BoxedStrategy;
use serde_json::json;

fn gcase(p: GenParams, lr: bool) -> BoxedStrategy<GCase> {
    (tape(30..120), tape(8..30))
        .prop_map(move |(gt, tp)| {
            let mut t = Tape { data: &gt, pos: 0 };
            let mut grammar = gens::grammar(&mut t, &p);
            if lr {
                grammar.gtype = Some(GType::LALR);
            }
            // another kind of tie: one terminal that is the only symbol of the only production of
            // several non-terminals (candidates for the terminal's name); the plain form is rejected
            // by parol ("multiple token aliases"), the form with a single-alternative group is not
            let mut t2 = Tape { data: &tp, pos: 0 };
            if t2.next(4) == 3 {
                let terms = grammar.terms();
                let text = if terms.is_empty() || t2.next(3) == 0 { "alias".to_string() } else { terms[t2.next(terms.len())].lit.text.clone() };
                let n = 2 + t2.next(3);
                let names = ["Plus", "UnaryPlus", "AliasC", "Another", "Zeta"];
                let start = grammar.start.clone();
                for (i, name) in names.iter().enumerate().take(n) {
                    if grammar.prods.iter().any(|p| p.lhs == *name) {
                        continue;
                    }
                    let body = if i == 0 && t2.next(2) == 0 { vec![Factor::t(&text)] } else { vec![Factor::Group(vec![vec![Factor::t(&text)]])] };
                    grammar.prods.push(Prod { lhs: name.to_string(), alts: vec![body] });
                    if let Some(p) = grammar.prods.iter_mut().find(|p| p.lhs == start) {
                        p.alts.push(vec![Factor::t(&format!("k{i}")), Factor::n(name)]);
                    }
                }
            }
            GCase { grammar, tape: tp }
        })
        .boxed()
}

pub struct C24;

/// all generated texts of one pipeline run
fn artefacts(text: &str, opts: &Opts) -> Result<Vec<(&'static str, String)>, String> {
    let b = pipeline::build(text, opts).map_err(|f| format!("{:?}: {}", f.stage(), f.msg()))?;
    let (tr, _) = pipeline::trait_source(&b, opts).map_err(|f| format!("{:?}: {}", f.stage(), f.msg()))?;
    let exp = parol::render_par_string(&b.gc, true).map_err(|e| e.to_string())?;
    Ok(vec![("parser source", b.parser_src), ("trait source", tr), ("expanded grammar", exp)])
}

impl Check for C24 {
    type Case = GCase;
    fn id(&self) -> &'static str {
        "C24"
    }
    fn rule(&self) -> String {
        "case = random grammar (ll(k) and lalr(1); shapes biased to ties: several equally frequent common prefixes inside one non-terminal, many alternatives over 2-3 terminals, helper-looking names, one terminal being the whole right-hand side of several single-production non-terminals) generated 6 times in one process: every HashMap/HashSet of every run gets a fresh RandomState, so hash-order dependence shows up exactly as it would between two processes; oracle: generated parser source, generated trait/AST source and the expanded grammar are byte-identical in all runs. Evaluations = pipeline runs. Non-trivial = grammar in which some non-terminal has two different equally frequent longest common prefixes (a left-factoring tie, decided by an independent predicate) or >= 12 productions after transformation; distinct by grammar text".into()
    }
    fn strategy(&self, tier: Tier) -> BoxedStrategy<GCase> {
        let mut p = GenParams::ll();
        p.max_t = 3;
        p.ll_bias = false;
        p.max_alts = 6;
        p.max_len = 4;
        p.ebnf = false;
        p.comments = false;
        p.hostile_names = true;
        let mut q = GenParams::ll();
        q.max_t = tier.pick(4, 5);
        q.hostile_names = true;
        let mut r = GenParams::lr();
        r.max_t = 4;
        proptest::strategy::Union::new(vec![gcase(p, false), gcase(q, false), gcase(r, true)]).boxed()
    }
    fn cases(&self, tier: Tier) -> u32 {
        tier.pick(10000, 150000)
    }
    fn run(&self, case: &GCase, st: &mut Stats) -> Verdict {
        let text = case.grammar.print();
        let opts = Opts { max_k: 3, ..Opts::default() };
        let first = match guard(|| artefacts(&text, &opts)) {
            Ok(Ok(a)) => a,
            Ok(Err(_)) => return Verdict::Skip("grammar rejected".into()),
            Err(_) => return Verdict::Skip("pipeline panics (C26's subject)".into()),
        };
        st.eval(1);
        for run in 1..6 {
            let next = match guard(|| artefacts(&text, &opts)) {
                Ok(Ok(a)) => a,
                Ok(Err(e)) => return Verdict::Fail("C24:verdict_differs_between_runs".into(), format!("run {run} fails: {e}\n{text}")),
                Err(p) => return Verdict::Fail("C24:verdict_differs_between_runs".into(), format!("run {run} panics: {p}\n{text}")),
            };
            st.eval(1);
            for ((name, a), (_, b)) in first.iter().zip(&next) {
                if a != b {
                    let la: Vec<&str> = a.lines().collect();
                    let lb: Vec<&str> = b.lines().collect();
                    let i = la.iter().zip(&lb).position(|(x, y)| x != y).unwrap_or(la.len().min(lb.len()));
                    let sig = match *name {
                        "expanded grammar" => "C24:expanded_grammar_differs_between_runs",
                        "parser source" => "C24:parser_source_differs_between_runs",
                        _ => "C24:trait_source_differs_between_runs",
                    };
                    return Verdict::Fail(
                        sig.into(),
                        format!("{name} differs between run 0 and run {run}; first differing line {i}:\n  {:?}\n  {:?}\n{text}\nexpanded grammar of run 0:\n{}", la.get(i), lb.get(i), first[2].1),
                    );
                }
            }
        }
        // tie predicate: two different prefixes of the same length shared by the same (maximal) number of alternatives
        let ig = IGrammar::from(&case.grammar);
        let mut tie = false;
        if ig.is_plain() {
            for alts in &ig.rules {
                for n in 1..=4usize {
                    let mut counts: std::collections::BTreeMap<&[IFactor], usize> = Default::default();
                    for a in alts.iter().filter(|a| a.len() >= n) {
                        *counts.entry(&a[..n]).or_default() += 1;
                    }
                    let max = counts.values().copied().max().unwrap_or(0);
                    if max >= 2 && counts.values().filter(|v| **v == max).count() >= 2 {
                        tie = true;
                    }
                }
            }
        }
        if tie {
            st.class("left_factoring_tie");
        }
        let n_prods = first[2].1.lines().filter(|l| l.starts_with("/*")).count();
        if tie || n_prods >= 12 {
            st.nontrivial(hash_of(&text));
        }
        st.sample(|| json!({"grammar": text, "tie": tie}));
        let _ = chart::min_heights;
        Verdict::Pass
    }
}

// ---------------------------------------------------------------------------------------------
pub struct C25;

pub fn annotated(p: GenParams, lr: bool) -> BoxedStrategy<GCase> {
    (tape(30..120), tape(60..160))
        .prop_map(move |(gt, tp)| {
            let mut t = Tape { data: &gt, pos: 0 };
            let mut grammar = gens::grammar(&mut t, &p);
            if lr {
                grammar.gtype = Some(GType::LALR);
            }
            let mut t2 = Tape { data: &tp, pos: 0 };
            gens::annotate(&mut grammar, &mut t2);
            GCase { grammar, tape: tp }
        })
        .boxed()
}

/// the aspects of a grammar configuration the property names, as comparable text
fn fingerprint(gc: &parol::GrammarConfig) -> Vec<String> {
    use parol::parser::parol_grammar::ScannerStateSwitch as S;
    use parol::{Symbol, SymbolAttribute, Terminal};
    let mut v = vec![];
    v.push(format!("start {}", gc.cfg.st));
    v.push(format!("title {:?}", gc.title));
    v.push(format!("comment {:?}", gc.comment));
    v.push(format!("grammar_type {:?}", gc.grammar_type));
    v.push(format!("user_types {:?}", gc.user_type_defs));
    v.push(format!("nt_types {:?}", gc.nt_type_defs));
    v.push(format!("t_type {:?}", gc.t_type_def));
    for sc in &gc.scanner_configurations {
        let tr: Vec<String> = sc
            .transitions
            .iter()
            .map(|(t, s)| match s {
                S::Switch(n, _) => format!("{t} enter {n}"),
                S::SwitchPush(n, _) => format!("{t} push {n}"),
                S::SwitchPop(_) => format!("{t} pop"),
            })
            .collect();
        v.push(format!(
            "scanner {} #{} line {:?} block {:?} auto_newline {} auto_ws {} allow_unmatched {} skip {:?} on {:?}",
            sc.scanner_name, sc.scanner_state, sc.line_comments, sc.block_comments, sc.auto_newline, sc.auto_ws, sc.allow_unmatched, sc.skip_tokens, tr
        ));
    }
    for (i, p) in gc.cfg.pr.iter().enumerate() {
        let mut s = format!("production {i} {}:", p.get_n_str());
        for sym in p.get_r() {
            match sym {
                Symbol::N(n, a, u, m) => s.push_str(&format!(" N({n} clip={} member={m:?} type={:?})", *a == SymbolAttribute::Clipped, u.as_ref().map(|u| u.to_string()))),
                Symbol::T(Terminal::Trm(t, k, st, a, u, m, l)) => s.push_str(&format!(
                    " T({t:?} {k:?} states={st:?} clip={} member={m:?} type={:?} lookahead={:?})",
                    *a == SymbolAttribute::Clipped,
                    u.as_ref().map(|u| u.to_string()),
                    l.as_ref().map(|l| (l.is_positive, l.pattern.clone(), l.kind))
                )),
                _ => s.push_str(" ?"),
            }
        }
        v.push(s);
    }
    v
}

impl Check for C25 {
    type Case = GCase;
    fn id(&self) -> &'static str {
        "C25"
    }
    fn rule(&self) -> String {
        "case = random grammar (ll(k) / lalr(1), EBNF) decorated with every annotation PAR offers: clipping, member names, user types (direct and through %user_type aliases), %nt_type, %t_type, title, comment, all three quoting styles, positive/negative lookaheads, 0-2 extra scanner states with terminal membership lists, auto newline/whitespace flags, %allow_unmatched, comment declarations, %skip and %on .. %enter/%push/%pop through primary non-terminals; oracle: read -> render_par_string -> read again, before and after transformation; both readings must agree on start symbol, every production symbol (name / text, quoting kind, clipped, member name, user type, scanner-state list, lookahead), declarations and every scanner configuration field including allow_unmatched, skip list and transitions. Evaluations = round trips. Non-trivial = grammar with >= 2 scanner states or >= 1 user type / member name / lookahead; distinct by grammar text".into()
    }
    fn strategy(&self, tier: Tier) -> BoxedStrategy<GCase> {
        let mut p = GenParams::ll();
        p.comments = true;
        p.max_nt = tier.pick(4, 6);
        let mut q = GenParams::lr();
        q.max_nt = 4;
        proptest::strategy::Union::new(vec![annotated(p, false), annotated(q, true)]).boxed()
    }
    fn cases(&self, tier: Tier) -> u32 {
        tier.pick(60000, 800000)
    }
    fn fixed_cases(&self) -> Vec<GCase> {
        // recorded finding: a title that ends with an escaped backslash, followed by a rendered
        // double-quoted comment declaration
        let mut g = Grammar::new("S", vec![Prod { lhs: "S".into(), alts: vec![vec![Factor::t("a")]] }]);
        g.title = Some("\\d+ \\\\".to_string());
        g.initial.line_comments.push(Lit::raw("//"));
        // recorded finding: two non-terminals consisting of the same terminal, one hidden in a group
        let h = Grammar::new(
            "S",
            vec![
                Prod { lhs: "S".into(), alts: vec![vec![Factor::n("A"), Factor::n("B")]] },
                Prod { lhs: "A".into(), alts: vec![vec![Factor::t("f")]] },
                Prod { lhs: "B".into(), alts: vec![vec![Factor::Group(vec![vec![Factor::t("f")]])]] },
            ],
        );
        vec![GCase { grammar: g, tape: vec![] }, GCase { grammar: h, tape: vec![] }]
    }
    fn run(&self, case: &GCase, st: &mut Stats) -> Verdict {
        let text = case.grammar.print();
        let g1 = match pipeline::read_grammar(&text) {
            Ok(g) => g,
            Err(f) if f.is_panic() => return Verdict::Skip("reading panics (C26's subject)".into()),
            Err(f) => return Verdict::Skip(format!("rejected: {}", crate::util::trunc(f.msg().rsplit(": ").next().unwrap_or(""), 50))),
        };
        let mut stages = vec![("as read", g1.clone())];
        if let Ok(t) = pipeline::transform(&g1) {
            stages.push(("transformed", t));
        }
        for (stage, gc) in &stages {
            st.eval(1);
            let rendered = match guard(|| parol::render_par_string(gc, false)) {
                Ok(Ok(r)) => r,
                Ok(Err(e)) => return Verdict::Fail("C25:rendering_fails".into(), format!("{stage}: {e}\n{text}")),
                Err(p) => return Verdict::Fail("C25:rendering_panics".into(), format!("{stage}: {p}\n{text}")),
            };
            let g2 = match pipeline::read_grammar(&rendered) {
                Ok(g) => g,
                Err(f) => {
                    // recorded finding: two non-terminals that each consist of the same terminal are
                    // only accepted when one of them hides the terminal in a group; the rendered
                    // (group-free) text trips the token-alias check
                    let sig = if f.msg().contains("Multiple token aliases") { "C25:rendered_text_rejected_for_multiple_token_aliases" } else { "C25:rendered_text_not_readable" };
                    let m = f.msg();
                    let tail = &m[m.char_indices().rev().nth(300).map(|(i, _)| i).unwrap_or(0)..];
                    return Verdict::Fail(sig.into(), format!("{stage}: ...{tail}\nrendered:\n{rendered}\noriginal:\n{text}"));
                }
            };
            let (a, b) = (fingerprint(gc), fingerprint(&g2));
            if a != b {
                let i = a.iter().zip(&b).position(|(x, y)| x != y).unwrap_or(a.len().min(b.len()));
                let (x, y) = (a.get(i).cloned().unwrap_or_default(), b.get(i).cloned().unwrap_or_default());
                let what = x.split_whitespace().next().unwrap_or("?").to_string();
                // a string whose text ends with a backslash: parol's String pattern lets `\"` both
                // end the string and continue it, the longest match wins when another quote follows
                let trailing_backslash = |o: &Option<String>| o.as_ref().is_some_and(|s| s.ends_with('\\'));
                let sig = if what == "scanner" && x.replace("allow_unmatched true", "allow_unmatched false") == y {
                    "C25:allow_unmatched_lost".to_string()
                } else if (what == "title" && trailing_backslash(&gc.title)) || (what == "comment" && trailing_backslash(&gc.comment)) {
                    "C25:string_ending_in_a_backslash_swallows_text_up_to_the_next_quote".to_string()
                } else {
                    format!("C25:{what}_differs_after_round_trip")
                };
                return Verdict::Fail(sig, format!("{stage}:\n  before: {x}\n  after:  {y}\nrendered:\n{rendered}\noriginal:\n{text}"));
            }
        }
        let g = &case.grammar;
        let rich = !g.scanners.is_empty() || !g.user_types.is_empty() || text.contains('@') || text.contains("?=") || text.contains("?!") || text.contains(" : ");
        if rich {
            st.nontrivial(hash_of(&text));
        }
        st.class(&format!("scanner_states={}", 1 + g.scanners.len()));
        st.sample(|| json!({"grammar": text}));
        Verdict::Pass
    }
}

// ---------------------------------------------------------------------------------------------
pub struct C26;

#[derive(Clone, Debug, serde::Serialize, serde::Deserialize)]
pub struct TextGrammarCase {
    pub text: String,
    pub max_k: usize,
    pub force_type: u8,
}

const PAR_TOKENS: &[&str] = &[
    "%start", "%title", "%comment", "%user_type", "%nt_type", "%t_type", "%grammar_type", "%line_comment", "%block_comment", "%auto_newline_off", "%auto_ws_off", "%skip", "%on", "%enter", "%push", "%pop",
    "%allow_unmatched", "%scanner", "%%", "::", ":", ";", "|", "(", ")", "[", "]", "{", "}", "<", ">", ",", "=", "@", "^", "?=", "?!", "'a'", "\"b\"", "/c/", "'ll(k)'", "'lalr(1)'", "S", "A", "B", "INITIAL", "State0", "//x\n",
    "/* y */", "'", "\"", "/", "\\", "'\\''", "''", "\"\"", "//",
];

fn tokenize_par(s: &str) -> Vec<String> {
    // rough tokenization good enough for mutation: split on whitespace, keep quoted literals
    let mut out = vec![];
    let mut cur = String::new();
    let mut quote: Option<char> = None;
    for c in s.chars() {
        match quote {
            Some(q) => {
                cur.push(c);
                if c == q {
                    quote = None;
                    out.push(std::mem::take(&mut cur));
                }
            }
            None => {
                if c.is_whitespace() {
                    if !cur.is_empty() {
                        out.push(std::mem::take(&mut cur));
                    }
                } else if (c == '\'' || c == '"') && cur.is_empty() {
                    cur.push(c);
                    quote = Some(c);
                } else {
                    cur.push(c);
                }
            }
        }
    }
    if !cur.is_empty() {
        out.push(cur);
    }
    out
}

fn mutate_text(text: &str, t: &mut Tape) -> String {
    match t.next(5) {
        0 | 1 => text.to_string(),
        2 | 3 => {
            // token level
            let mut toks = tokenize_par(text);
            for _ in 0..1 + t.next(3) {
                if toks.is_empty() {
                    break;
                }
                let pos = t.next(toks.len());
                match t.next(5) {
                    0 => {
                        toks.remove(pos);
                    }
                    1 => {
                        let x = toks[pos].clone();
                        toks.insert(pos, x);
                    }
                    2 => {
                        let other = t.next(toks.len());
                        toks.swap(pos, other);
                    }
                    3 => toks.insert(pos, PAR_TOKENS[t.next(PAR_TOKENS.len())].to_string()),
                    _ => toks[pos] = PAR_TOKENS[t.next(PAR_TOKENS.len())].to_string(),
                }
            }
            toks.join(" ")
        }
        _ => {
            // byte level
            let mut b: Vec<u8> = text.as_bytes().to_vec();
            for _ in 0..1 + t.next(4) {
                if b.is_empty() {
                    break;
                }
                let pos = t.next(b.len());
                match t.next(4) {
                    0 => {
                        b.remove(pos);
                    }
                    1 => b.insert(pos, (t.next(256)) as u8),
                    2 => b[pos] = (t.next(256)) as u8,
                    _ => {
                        let end = (pos + 1 + t.next(8)).min(b.len());
                        let chunk: Vec<u8> = b[pos..end].to_vec();
                        for (i, x) in chunk.into_iter().enumerate() {
                            b.insert(pos + i, x);
                        }
                    }
                }
            }
            String::from_utf8_lossy(&b).into_owned()
        }
    }
}

/// runs every stage; returns the first panic as (stage, message)
pub fn run_all_stages(text: &str, max_k: usize) -> Result<&'static str, (String, String)> {
    let opts = Opts { max_k, ..Opts::default() };
    let gc0 = match pipeline::read_grammar(text) {
        Ok(g) => g,
        Err(f) if f.is_panic() => return Err(("Parse".into(), f.msg().to_string())),
        Err(_) => return Ok("rejected while reading"),
    };
    // rendering the untransformed grammar
    if let Err(p) = guard(|| parol::render_par_string(&gc0, true)) {
        return Err(("Render".into(), p));
    }
    let built = match pipeline::build_from(gc0, &opts) {
        Ok(b) => b,
        Err(f) if f.is_panic() => return Err((format!("{:?}", f.stage()), f.msg().to_string())),
        Err(f) => {
            return Ok(match f.stage() {
                pipeline::Stage::Transform => "rejected by checks",
                pipeline::Stage::Analysis => "rejected by analysis",
                _ => "rejected by generation",
            });
        }
    };
    match pipeline::trait_source(&built, &opts) {
        Err(f) if f.is_panic() => return Err(("TraitGen".into(), f.msg().to_string())),
        _ => {}
    }
    match pipeline::export_model(&built) {
        Err(f) if f.is_panic() => return Err(("Export".into(), f.msg().to_string())),
        _ => {}
    }
    if let Err(p) = guard(|| parol::render_par_string(&built.gc, true)) {
        return Err(("Render".into(), p));
    }
    Ok("generated")
}

fn panic_site(msg: &str) -> String {
    // "<message> @ <file>:<line>"  ->  file:line relative to the repository / registry crate
    let loc = msg.rsplit(" @ ").next().unwrap_or("");
    let loc = loc.rsplit("/crates/").next().unwrap_or(loc);
    let loc = loc.rsplit("/registry/src/").next().unwrap_or(loc);
    let loc = loc.split_once('/').filter(|(a, _)| a.contains("index.") || a.contains(".dev-") || a.contains("crates.io")).map(|(_, b)| b).unwrap_or(loc);
    loc.to_string()
}

impl Check for C26 {
    type Case = TextGrammarCase;
    fn id(&self) -> &'static str {
        "C26"
    }
    fn rule(&self) -> String {
        "case = grammar text from one of: (i) generated valid grammars of all pools (EBNF, hostile names, fully annotated, scanner grammars) - unchanged, (ii) 1-3 token-level mutations (drop / duplicate / swap / insert / replace PAR tokens, unbalanced brackets, stray quotes), (iii) 1-4 byte-level mutations rendered lossily, (iv) random strings over the PAR vocabulary; grammar type forced to ll(k) or lalr(1) by prepending the declaration or left as is; lookahead limit K in {0, 1, 2, 5, 10} (bounded by alphabet size); every stage (read, render, check and transform, LL analysis / LALR table, lexer and parser generation, trait generation, export model, render transformed) runs under catch_unwind; oracle: no stage panics. Evaluations = texts. Non-trivial = text that parses as PAR and reaches the analysis stage; distinct by text".into()
    }
    fn strategy(&self, tier: Tier) -> BoxedStrategy<TextGrammarCase> {
        let base = proptest::strategy::Union::new(vec![
            {
                let mut p = GenParams::ll();
                p.hostile_names = true;
                p.max_nt = tier.pick(4, 6);
                annotated(p, false)
            },
            annotated(GenParams::lr(), true),
            {
                let mut p = GenParams::lr();
                p.ll_bias = false;
                p.fix_nullable_bodies = false;
                p.repair = false;
                p.max_nt = 3;
                gcase(p, true)
            },
            {
                let mut p = GenParams::ll();
                p.repair = false;
                p.left_rec = true;
                gcase(p, false)
            },
        ])
        .prop_map(|c| c.grammar.print());
        let scan = super::scan::scan_case_strategy(super::scan::ScanParams::default(), 0).prop_map(|c| c.grammar().print());
        let random = proptest::collection::vec(0usize..PAR_TOKENS.len(), 0..40).prop_map(|v| v.into_iter().map(|i| PAR_TOKENS[i]).collect::<Vec<_>>().join(" "));
        let hostile = C33.strategy(tier).prop_map(|c| c.grammar.print());
        let text = prop_oneof![6 => base, 2 => scan, 2 => hostile, 1 => random];
        (text, tape(8..24), proptest::sample::select(vec![0usize, 1, 2, 5, 10]), 0u8..3)
            .prop_map(|(text, tp, k, force)| {
                let mut t = Tape { data: &tp, pos: 0 };
                let mut text = mutate_text(&text, &mut t);
                if force > 0 {
                    let decl = if force == 1 { "%grammar_type 'll(k)'" } else { "%grammar_type 'lalr(1)'" };
                    // after the %start line
                    if let Some(i) = text.find('\n') {
                        if !text.contains("%grammar_type") {
                            text.insert_str(i + 1, &format!("{decl}\n"));
                        }
                    }
                }
                let n_terms = text.matches('\'').count() / 2 + text.matches('"').count() / 2 + 1;
                let kmax = ((20000f64).ln() / ((n_terms + 1) as f64).ln()).floor() as usize;
                TextGrammarCase { text, max_k: k.min(kmax.max(1)), force_type: force }
            })
            .boxed()
    }
    fn cases(&self, tier: Tier) -> u32 {
        tier.pick(60000, 1000000)
    }
    fn run(&self, c: &TextGrammarCase, st: &mut Stats) -> Verdict {
        st.eval(1);
        match run_all_stages(&c.text, c.max_k) {
            Ok(how) => {
                st.class(how);
                if how != "rejected while reading" {
                    st.nontrivial(hash_of(&c.text));
                }
                st.sample(|| json!({"text": crate::util::trunc(&c.text, 300), "K": c.max_k, "outcome": how}));
                Verdict::Pass
            }
            Err((stage, msg)) => {
                let site = panic_site(&msg);
                // the recorded finding: cyclic grammars make lalry's table construction panic
                let mut sig = format!("C26:panic_in_{stage}@{site}");
                if site.contains("lalry") && msg.contains("unreachable") {
                    if let Ok(gc0) = pipeline::read_grammar(&c.text) {
                        if crate::ffref::Bnf::from_cfg(&gc0.cfg).is_cyclic() {
                            sig = "C26:lalr_table_construction_panics_on_cyclic_grammar".into();
                        }
                    }
                }
                Verdict::Fail(sig, format!("stage {stage} panics: {msg}\nK={}\n{}", c.max_k, c.text))
            }
        }
    }
}

// ---------------------------------------------------------------------------------------------
pub struct C33;

const RUST_KEYWORDS: &[&str] = &[
    "as", "break", "const", "continue", "crate", "else", "enum", "extern", "false", "fn", "for", "if", "impl", "in", "let", "loop", "match", "mod", "move", "mut", "pub", "ref", "return", "self", "Self", "static", "struct", "super",
    "trait", "true", "type", "unsafe", "use", "where", "while", "async", "await", "dyn", "abstract", "become", "box", "do", "final", "macro", "override", "priv", "typeof", "unsized", "virtual", "yield", "try", "gen",
];

fn valid_ident(s: &str) -> bool {
    let s = s.strip_prefix("r#").unwrap_or(s);
    let mut ch = s.chars();
    // Rust identifiers are Unicode (XID_Start XID_Continue*); alphabetic / alphanumeric is the
    // closest std predicate and errs on the permissive side
    matches!(ch.next(), Some(c) if c.is_alphabetic() || c == '_') && ch.all(|c| c.is_alphanumeric() || c == '_') && s != "_"
}

const HOSTILE_NT_NAMES: &[&str] = &[
    "Type", "type_", "Self_", "Box", "Vec", "Option", "Result", "Token", "String", "my_nt", "MyNt", "My_Nt", "myNt", "MYNT", "Fn", "Match", "Struct", "A1", "A_1", "A__1", "_a", "a_", "Opt", "List", "Group", "ASTType", "Ok", "Err", "Some", "None",
    "Grammar", "GrammarAuto", "Start", "start", "START", "Impl", "Trait", "Ref", "Mod", "Crate", "Super", "Async", "Await", "Dyn", "Yield", "r", "R",
];

const HOSTILE_TERMS: &[&str] = &["+", "++", "+=", "a", "A", "a_", "_", "__", "1", "12", "1a", "if", "type", "self", "Self", ".", "..", "...", "<", "<<", "<=", "-", "->", "--", "#", "##", "\u{e9}", "\u{4e2d}", "a-b", "a b", "a.b", "::", "%", "%%", "@", "$", "^", "~", "?", "!", "!=", "==", "=", "*", "**", "/", "|", "||", "&", "&&", "fn", "Box"];

impl Check for C33 {
    type Case = GCase;
    fn id(&self) -> &'static str {
        "C33"
    }
    fn fixed_cases(&self) -> Vec<GCase> {
        // recorded finding: the type of the alternative `Grammar: Trait` is named GrammarTrait
        let g = Grammar::new(
            "S",
            vec![
                Prod { lhs: "S".into(), alts: vec![vec![Factor::n("Grammar")]] },
                Prod { lhs: "Grammar".into(), alts: vec![vec![Factor::t("b"), Factor::t("c")], vec![Factor::n("Trait")]] },
                Prod { lhs: "Trait".into(), alts: vec![vec![Factor::t("+")]] },
            ],
        );
        vec![GCase { grammar: g, tape: vec![] }]
    }
    fn rule(&self) -> String {
        "case = random grammar whose non-terminals are renamed to hostile names (Rust keywords in various casings, prelude and runtime type names, names that differ only by case / underscores / numeric suffix, helper-looking names) and whose terminals are drawn from texts that map to equal or awkward names (+, ++, +=, a, A, a_, _, 1, keywords, non-ASCII, punctuation runs), with member names and both grammar types; oracle on the generated sources: both files parse with syn; every TERMINAL_NAMES entry and every struct / enum / variant / field / method name is a valid identifier that is not a keyword; TERMINAL_NAMES entries are pairwise distinct, NON_TERMINALS entries are pairwise distinct, type names are pairwise distinct, fields of one struct, variants of one enum and methods of one trait / impl are pairwise distinct. Evaluations = grammars. Non-trivial = grammar where two source names map to the same upper-camel-case or snake-case form; distinct by grammar text".into()
    }
    fn strategy(&self, tier: Tier) -> BoxedStrategy<GCase> {
        let mk = move |lr: bool| {
            let mut p = if lr { GenParams::lr() } else { GenParams::ll() };
            p.comments = false;
            p.max_nt = tier.pick(5, 6);
            (tape(30..120), tape(40..80))
                .prop_map(move |(gt, tp)| {
                    let mut t = Tape { data: &gt, pos: 0 };
                    let mut grammar = gens::grammar(&mut t, &p);
                    if lr {
                        grammar.gtype = Some(GType::LALR);
                    }
                    let mut t2 = Tape { data: &tp, pos: 0 };
                    // rename non-terminals
                    let nts = grammar.nts();
                    let mut used: Vec<String> = nts.clone();
                    for old in nts.iter() {
                        if t2.next(2) == 0 {
                            let new = HOSTILE_NT_NAMES[t2.next(HOSTILE_NT_NAMES.len())].to_string();
                            if used.contains(&new) {
                                continue;
                            }
                            used.push(new.clone());
                            for pr in grammar.prods.iter_mut() {
                                if pr.lhs == *old {
                                    pr.lhs = new.clone();
                                }
                                gens::rename_nt(&mut pr.alts, old, &new);
                            }
                            if grammar.start == *old {
                                grammar.start = new.clone();
                            }
                        }
                    }
                    // replace terminal texts consistently
                    let terms = grammar.terms();
                    let mut map: Vec<(String, String)> = vec![];
                    let mut taken: Vec<String> = vec![];
                    for tm in &terms {
                        let new = HOSTILE_TERMS[t2.next(HOSTILE_TERMS.len())].to_string();
                        if taken.contains(&new) {
                            taken.push(tm.lit.text.clone());
                            continue;
                        }
                        taken.push(new.clone());
                        map.push((tm.lit.text.clone(), new));
                    }
                    fn walk(a: &mut Alts, map: &[(String, String)], t: &mut Tape) {
                        for alt in a.iter_mut() {
                            for f in alt.iter_mut() {
                                match f {
                                    Factor::T { term, ann, .. } => {
                                        if let Some((_, n)) = map.iter().find(|(o, _)| *o == term.lit.text) {
                                            term.lit.text = n.clone();
                                            term.sample = n.clone();
                                        }
                                        if t.next(6) == 0 {
                                            ann.member = Some(["r#type", "type_", "self_", "my_member", "MyMember", "x", "x_1"][t.next(7)].trim_start_matches("r#").to_string());
                                        }
                                    }
                                    Factor::N { ann, .. } => {
                                        if t.next(8) == 0 {
                                            ann.member = Some(["lhs", "my_member", "x", "x_1", "item"][t.next(5)].to_string());
                                        }
                                    }
                                    Factor::Group(x) | Factor::Opt(x) | Factor::Rep(x) => walk(x, map, t),
                                }
                            }
                        }
                    }
                    for pr in grammar.prods.iter_mut() {
                        walk(&mut pr.alts, &map, &mut t2);
                    }
                    GCase { grammar, tape: tp }
                })
                .boxed()
        };
        proptest::strategy::Union::new(vec![mk(false), mk(true)]).boxed()
    }
    fn cases(&self, tier: Tier) -> u32 {
        tier.pick(24000, 300000)
    }
    fn run(&self, case: &GCase, st: &mut Stats) -> Verdict {
        use std::collections::BTreeSet;
        let text = case.grammar.print();
        let opts = Opts { max_k: 3, ..Opts::default() };
        let built = match pipeline::build(&text, &opts) {
            Ok(b) => b,
            Err(f) if f.is_panic() => return Verdict::Skip("pipeline panics (C26's subject)".into()),
            Err(f) => return Verdict::Skip(format!("rejected at {:?}", f.stage())),
        };
        let (trait_src, _) = match pipeline::trait_source(&built, &opts) {
            Ok(x) => x,
            Err(f) if f.is_panic() => return Verdict::Skip("trait generation panics (C26's subject)".into()),
            Err(f) => return Verdict::Skip(format!("trait generation rejects: {}", crate::util::trunc(f.msg(), 60))),
        };
        st.eval(1);
        let tables = match crate::loader::read_tables(&built.parser_src) {
            Ok(t) => t,
            Err(e) => return Verdict::Fail("C33:parser_source_does_not_parse".into(), format!("{e}\n{text}")),
        };
        let dup = |v: &[String]| -> Option<String> {
            let mut s = BTreeSet::new();
            v.iter().find(|x| !s.insert((*x).clone())).cloned()
        };
        for n in &tables.terminal_names {
            if !valid_ident(n) || RUST_KEYWORDS.contains(&n.as_str()) {
                let sig = if n == "Self" { "C33:terminal_text_self_named_Self" } else { "C33:terminal_name_is_no_identifier" };
                return Verdict::Fail(sig.into(), format!("terminal name {n:?}\n{:?}\n{text}", tables.terminal_names));
            }
        }
        if let Some(d) = dup(&tables.terminal_names) {
            return Verdict::Fail("C33:terminal_names_not_distinct".into(), format!("{d:?} occurs twice in {:?}\n{text}", tables.terminal_names));
        }
        if let Some(d) = dup(&tables.non_terminals) {
            return Verdict::Fail("C33:non_terminal_names_not_distinct".into(), format!("{d:?}\n{text}"));
        }
        let file = match syn::parse_file(&trait_src) {
            Ok(f) => f,
            Err(e) => {
                let kw_member = RUST_KEYWORDS.iter().any(|k| text.contains(&format!("@{k} ")) || text.contains(&format!("@{k}\n")));
                let self_nt = case.grammar.used_names().iter().any(|n| n.chars().filter(|c| *c != '_').collect::<String>().eq_ignore_ascii_case("self"))
                    || text.to_lowercase().contains("@self");
                let unrawable = case.grammar.used_names().iter().any(|n| {
                    let l: String = n.chars().filter(|c| *c != '_').flat_map(|c| c.to_lowercase()).collect();
                    l == "crate" || l == "super"
                });
                let sig = if kw_member {
                    "C33:explicit_member_name_is_rust_keyword"
                } else if unrawable && e.to_string().contains("cannot parse string into token stream") {
                    "C33:non_terminal_name_maps_to_crate_or_super"
                } else if self_nt && e.to_string().contains("`Self`") {
                    "C33:non_terminal_name_maps_to_type_name_Self"
                } else {
                    "C33:trait_source_does_not_parse"
                };
                return Verdict::Fail(sig.into(), format!("{e}\n{text}"));
            }
        };
        let mut type_names: Vec<String> = vec![];
        let bad_ident = |i: &syn::Ident| -> bool {
            let s = i.to_string();
            !valid_ident(&s) || (!s.starts_with("r#") && RUST_KEYWORDS.contains(&s.as_str()))
        };
        for item in &file.items {
            match item {
                syn::Item::Struct(s) => {
                    type_names.push(s.ident.to_string());
                    let fields: Vec<String> = s.fields.iter().filter_map(|f| f.ident.as_ref().map(|i| i.to_string())).collect();
                    if let Some(d) = dup(&fields) {
                        return Verdict::Fail("C33:struct_members_not_distinct".into(), format!("struct {} has member {d} twice\n{text}", s.ident));
                    }
                    if bad_ident(&s.ident) || s.fields.iter().filter_map(|f| f.ident.as_ref()).any(|i| bad_ident(i)) {
                        return Verdict::Fail("C33:invalid_identifier".into(), format!("struct {}\n{text}", s.ident));
                    }
                }
                syn::Item::Enum(e) => {
                    type_names.push(e.ident.to_string());
                    let vars: Vec<String> = e.variants.iter().map(|v| v.ident.to_string()).collect();
                    if let Some(d) = dup(&vars) {
                        return Verdict::Fail("C33:enum_variants_not_distinct".into(), format!("enum {} has variant {d} twice\n{text}", e.ident));
                    }
                    if bad_ident(&e.ident) || e.variants.iter().any(|v| bad_ident(&v.ident)) {
                        return Verdict::Fail("C33:invalid_identifier".into(), format!("enum {}\n{text}", e.ident));
                    }
                }
                syn::Item::Trait(tr) => {
                    let methods: Vec<String> = tr.items.iter().filter_map(|i| if let syn::TraitItem::Fn(f) = i { Some(f.sig.ident.to_string()) } else { None }).collect();
                    if let Some(d) = dup(&methods) {
                        return Verdict::Fail("C33:trait_methods_not_distinct".into(), format!("trait {} has method {d} twice\n{text}", tr.ident));
                    }
                    type_names.push(tr.ident.to_string());
                }
                syn::Item::Impl(im) => {
                    let methods: Vec<String> = im.items.iter().filter_map(|i| if let syn::ImplItem::Fn(f) = i { Some(f.sig.ident.to_string()) } else { None }).collect();
                    if let Some(d) = dup(&methods) {
                        return Verdict::Fail("C33:impl_methods_not_distinct".into(), format!("impl has method {d} twice\n{text}"));
                    }
                }
                _ => {}
            }
        }
        if let Some(d) = dup(&type_names) {
            let infra = ["Grammar", "GrammarAuto", "GrammarTrait", "ASTType"];
            if infra.contains(&d.as_str()) && case.grammar.used_names().iter().any(|n| crate_upper_camel(n) == d) {
                return Verdict::Fail("C33:non_terminal_named_like_generated_infrastructure_type".into(), format!("type {d} is defined twice\n{text}"));
            }
            if infra.contains(&d.as_str()) {
                // e.g. non-terminal `Grammar` with an alternative named after symbol `Trait`
                return Verdict::Fail("C33:production_type_name_equals_generated_infrastructure_type".into(), format!("type {d} is defined twice\n{text}"));
            }
            return Verdict::Fail("C33:type_names_not_distinct".into(), format!("type {d} is defined twice\n{text}"));
        }
        // non-triviality: names that collide after case conversion
        let norm = |s: &str| s.chars().filter(|c| *c != '_').flat_map(|c| c.to_lowercase()).collect::<String>();
        let names = case.grammar.nts();
        let mut seen = BTreeSet::new();
        let collide = names.iter().any(|n| !seen.insert(norm(n)));
        if collide {
            st.class("names_collide_after_case_conversion");
            st.nontrivial(hash_of(&text));
        } else if names.iter().any(|n| HOSTILE_NT_NAMES.contains(&n.as_str())) {
            st.nontrivial(hash_of(&text));
        }
        st.sample(|| json!({"grammar": text, "terminal_names": tables.terminal_names}));
        Verdict::Pass
    }
}


fn crate_upper_camel(n: &str) -> String {
    let mut out = String::new();
    let mut up = true;
    for c in n.chars() {
        if c == '_' {
            up = true;
        } else if up {
            out.extend(c.to_uppercase());
            up = false;
        } else {
            out.push(c);
        }
    }
    out
}


pub const PAR_TOKENS_PUB: &[&str] = PAR_TOKENS;

pub fn mutate_text_pub(text: &str, t: &mut Tape) -> String {
    mutate_text(text, t)
}

pub fn tokenize_par_pub(s: &str) -> Vec<String> {
    tokenize_par(s)
}

/// fingerprint (see C25) of a grammar text, Err if parol does not accept it
pub fn fingerprint_of_text(text: &str) -> Result<Vec<String>, String> {
    match pipeline::read_grammar(text) {
        Ok(g) => Ok(fingerprint(&g)),
        Err(f) => Err(f.msg().to_string()),
    }
}

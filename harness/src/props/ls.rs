//! Language-server checks: C27 formatter, C28 rename, C29 diagnostics versions, C30 no crash,
//! C34 parser agreement.  All of them talk to the hooked parol-ls binary (see lsdrv.rs).

use super::gen_props::{annotated, fingerprint_of_text, mutate_text_pub, PAR_TOKENS_PUB};
use super::trans::GCase;
use crate::chart::Tape;
use crate::engine::*;
use crate::gens::GenParams;
use crate::lsdrv::with_ls;
use crate::util::{guard, hash_of};
use proptest::prelude::*;
use proptest::strategy::BoxedStrategy;
use serde::{Deserialize, Serialize};
use serde_json::{Value, json};

const URI: &str = "file:///verif/doc.par";

fn call(cmd: Value) -> Result<Value, String> {
    with_ls(|ls| ls.call(cmd))
}

fn valid_texts(tier: Tier) -> BoxedStrategy<String> {
    let mut p = GenParams::ll();
    p.max_nt = tier.pick(4, 5);
    let mut q = GenParams::lr();
    q.max_nt = 4;
    proptest::strategy::Union::new(vec![annotated(p, false), annotated(q, true)]).prop_map(|c: GCase| c.grammar.print()).boxed()
}

// ---------------------------------------------------------------------------------------------
pub struct C34;

#[derive(Clone, Debug, Serialize, Deserialize)]
pub struct TextCase {
    pub text: String,
}

fn parol_syntax_verdict(text: &str) -> Result<Option<bool>, String> {
    // Some(true) = syntax error, Some(false) = syntactically fine, None = semantic error stopped the parse
    guard(|| {
        let mut g = parol::ParolGrammar::new();
        match parol::parser::parol_parser::parse(text, "verif.par", &mut g) {
            Ok(_) => Some(false),
            Err(parol_runtime::ParolError::ParserError(_)) | Err(parol_runtime::ParolError::LexerError(_)) => Some(true),
            Err(parol_runtime::ParolError::UserError(_)) => None,
        }
    })
}

impl Check for C34 {
    type Case = TextCase;
    fn id(&self) -> &'static str {
        "C34"
    }
    fn rule(&self) -> String {
        "case = text over the PAR vocabulary: generated valid grammar texts of all annotation pools (unchanged), 1-3 token-level mutations (drop / duplicate / swap / insert / replace tokens, unbalanced brackets, stray quotes), byte-level mutations, random token strings; oracle: differential - parol's own grammar parser and the language server's parser (hooked entry point that only parses) must both report a syntax error (parser or lexer error) or both report none; texts on which either side stops with a semantic (user) error before the end are undetermined and only counted. Evaluations = texts compared. Non-trivial = mutated or random text on which both sides reach a syntax verdict; distinct by text".into()
    }
    fn strategy(&self, tier: Tier) -> BoxedStrategy<TextCase> {
        let random = proptest::collection::vec(0usize..PAR_TOKENS_PUB.len(), 0..40).prop_map(|v| v.into_iter().map(|i| PAR_TOKENS_PUB[i]).collect::<Vec<_>>().join(" "));
        let base = prop_oneof![6 => valid_texts(tier), 1 => random];
        (base, tape(8..24)).prop_map(|(t, tp)| TextCase { text: mutate_text_pub(&t, &mut Tape { data: &tp, pos: 0 }) }).boxed()
    }
    fn cases(&self, tier: Tier) -> u32 {
        tier.pick(40000, 600000)
    }
    fn run(&self, c: &TextCase, st: &mut Stats) -> Verdict {
        st.eval(1);
        let a = match parol_syntax_verdict(&c.text) {
            Ok(v) => v,
            Err(p) => return Verdict::Skip(format!("parol's parser panics (C26's subject): {}", crate::util::trunc(&p, 60))),
        };
        let r = match call(json!({"cmd": "parse", "text": c.text})) {
            Ok(v) => v,
            Err(e) => return Verdict::Fail("C34:language_server_process_dies_while_parsing".into(), format!("{e}\n{}", c.text)),
        };
        if let Some(p) = r.get("panic") {
            return Verdict::Skip(format!("the language server's parser panics (C30's subject): {}", crate::util::trunc(&p.to_string(), 60)));
        }
        let b = if r["ok"].as_bool() == Some(true) {
            Some(false)
        } else {
            match r["kind"].as_str() {
                Some("parser") | Some("lexer") => Some(true),
                _ => None,
            }
        };
        match (a, b) {
            (Some(x), Some(y)) => {
                if x != y {
                    let sig = if x { "C34:language_server_accepts_text_parol_rejects" } else { "C34:language_server_rejects_text_parol_accepts" };
                    return Verdict::Fail(sig.into(), format!("parol syntax error: {x}, language server syntax error: {y} ({})\n{}", r["message"], c.text));
                }
                st.class(if x { "both_syntax_error" } else { "both_accept" });
                st.nontrivial(hash_of(&c.text));
            }
            _ => st.class("undetermined(semantic error stops one parser)"),
        }
        st.sample(|| json!({"text": crate::util::trunc(&c.text, 200), "syntax_error": a}));
        Verdict::Pass
    }
}

// ---------------------------------------------------------------------------------------------
pub struct C30;

#[derive(Clone, Debug, Serialize, Deserialize)]
pub struct CrashCase {
    pub text: String,
    pub positions: Vec<(u32, u32)>,
}

impl Check for C30 {
    type Case = CrashCase;
    fn id(&self) -> &'static str {
        "C30"
    }
    fn rule(&self) -> String {
        "case = document text (generated valid grammars, %on / %skip directive texts with tokens of other scanner states and comments that mention the keywords, token / byte level mutants, random strings, with LF, CRLF or per-line mixed line ends and multi-byte characters in comments at line starts and ends) opened in a fresh Server (in-memory connection) x positions (every line start and end, positions inside and one beyond every line, beyond the last line, huge values) x requests: hover, go-to-definition, document symbols, prepare-rename, rename, formatting, code action with the diagnostics the server itself published; oracle: the driver's catch_unwind sees no panic and the process stays alive; pos_to_offset returns an offset <= text length that lies on a character boundary. Evaluations = requests sent. Non-trivial = position beyond a line end or inside a line with multi-byte characters; distinct by (text, position)".into()
    }
    fn strategy(&self, tier: Tier) -> BoxedStrategy<CrashCase> {
        let random = proptest::collection::vec(0usize..PAR_TOKENS_PUB.len(), 0..40).prop_map(|v| v.into_iter().map(|i| PAR_TOKENS_PUB[i]).collect::<Vec<_>>().join(" "));
        let unicode = proptest::collection::vec(any::<char>(), 0..30).prop_map(|v| v.into_iter().collect::<String>());
        // %on / %skip directives naming tokens that do or do not belong to the scanner state, with
        // trailing comments that mention the directive keywords: the texts for which the server
        // publishes token_not_in_scanner diagnostics and offers quick fixes
        let directives = tape(6..7).prop_map(|tp| {
            let mut t = Tape { data: &tp, pos: 0 };
            let cmts = ["", " // x", " // B was moved here from the %skip list", " # %skip", " // %on %skip \u{e4}", " /* %skip */"];
            let d1 = ["%on B %enter M", "%on A %enter M", "%skip B", "%skip A,\n    B", ""][t.next(5)];
            let d2 = ["%skip A", "%on A %enter INITIAL", "%skip B", "%skip A,\n        B", "%on B %enter INITIAL"][t.next(5)];
            let (c1, c2) = (cmts[t.next(cmts.len())], cmts[t.next(cmts.len())]);
            format!("%start S\n{d1}{c1}\n%scanner M {{\n    {d2}{c2}\n}}\n%%\nS: A B;\nA: 'a';\nB: <M>'b';\n")
        });
        let base = prop_oneof![6 => valid_texts(tier), 1 => random, 1 => unicode, 1 => directives];
        (base, tape(8..24), any::<u8>(), proptest::collection::vec((0u32..12, 0u32..40), 6))
            .prop_map(|(t, tp, style, extra)| {
                let mut text = mutate_text_pub(&t, &mut Tape { data: &tp, pos: 0 });
                if style % 4 == 0 {
                    text = text.replacen("%%", "// \u{e4}\u{4e2d}\u{1F600} comment\n%%", 1);
                }
                // line ends: all LF, all CRLF, or chosen per line (mixed documents); multi-byte
                // characters at the start, in the middle (inside a comment) and at the end of lines
                let mode = style % 3;
                let mut t2 = Tape { data: &tp, pos: 0 };
                let lines: Vec<String> = text.split('\n').map(|l| l.to_string()).collect();
                let n = lines.len();
                let mut out = String::new();
                for (i, mut l) in lines.into_iter().enumerate() {
                    if style & 0x10 != 0 {
                        match t2.next(6) {
                            3 => l.push_str(" //\u{fc}"),
                            4 => l.push_str(" // \u{e4}\u{4e2d}\u{1F600}\u{e9}"),
                            5 => l = format!("/*\u{fc}\u{e4}\u{f6}*/{l}"),
                            _ => {}
                        }
                    }
                    out.push_str(&l);
                    if i + 1 < n {
                        let crlf = match mode {
                            0 => false,
                            1 => true,
                            _ => t2.next(2) == 1,
                        };
                        out.push_str(if crlf { "\r\n" } else { "\n" });
                    }
                }
                text = out;
                let mut positions = extra;
                let lines: Vec<&str> = text.split('\n').collect();
                for (i, l) in lines.iter().enumerate().take(12) {
                    let n = l.chars().count() as u32;
                    positions.push((i as u32, 0));
                    positions.push((i as u32, n));
                    positions.push((i as u32, n + 1));
                    positions.push((i as u32, n / 2));
                }
                positions.push((lines.len() as u32, 0));
                positions.push((lines.len() as u32 + 5, 3));
                positions.push((u32::MAX, u32::MAX));
                positions.push((0, u32::MAX));
                CrashCase { text, positions }
            })
            .boxed()
    }
    fn cases(&self, tier: Tier) -> u32 {
        tier.pick(1800, 40000)
    }
    fn run(&self, c: &CrashCase, st: &mut Stats) -> Verdict {
        let text = &c.text;
        macro_rules! ask {
            ($cmd:expr, $what:expr) => {{
                st.eval(1);
                match call($cmd) {
                    Ok(v) => {
                        if let Some(p) = v.get("panic") {
                            let msg = p.as_str().unwrap_or("").to_string();
                            let site = msg.rsplit(" @ ").next().unwrap_or("").rsplit("/crates/").next().unwrap_or("").to_string();
                            return Verdict::Fail(format!("C30:{}_panics@{}", $what, site), format!("{msg}\nrequest {}\ntext {text:?}", $what));
                        }
                        v
                    }
                    Err(e) => return Verdict::Fail(format!("C30:server_process_dies_on_{}", $what), format!("{e}\ntext {text:?}")),
                }
            }};
        }
        ask!(json!({"cmd": "new_server", "max_k": 2}), "new_server");
        ask!(json!({"cmd": "open", "uri": URI, "version": 1, "text": text}), "didOpen");
        ask!(json!({"cmd": "wait_idle"}), "wait_idle");
        let diags = ask!(json!({"cmd": "diagnostics"}), "diagnostics");
        let last_diags: Value = diags["notifications"].as_array().and_then(|a| a.last()).map(|n| n["params"]["diagnostics"].clone()).unwrap_or(json!([]));
        let td = json!({"uri": URI});
        ask!(json!({"cmd": "request", "method": "textDocument/documentSymbol", "params": {"textDocument": td}}), "documentSymbol");
        ask!(json!({"cmd": "request", "method": "textDocument/formatting", "params": {"textDocument": td, "options": {"tabSize": 4, "insertSpaces": true}}}), "formatting");
        let full = json!({"start": {"line": 0, "character": 0}, "end": {"line": 100000, "character": 0}});
        ask!(json!({"cmd": "request", "method": "textDocument/codeAction", "params": {"textDocument": td, "range": full, "context": {"diagnostics": last_diags}}}), "codeAction");
        for (line, ch) in &c.positions {
            let pos = json!({"line": line, "character": ch});
            let tdp = json!({"textDocument": td, "position": pos});
            ask!(json!({"cmd": "request", "method": "textDocument/hover", "params": tdp}), "hover");
            ask!(json!({"cmd": "request", "method": "textDocument/definition", "params": tdp}), "definition");
            ask!(json!({"cmd": "request", "method": "textDocument/prepareRename", "params": tdp}), "prepareRename");
            ask!(json!({"cmd": "request", "method": "textDocument/rename", "params": {"textDocument": td, "position": pos, "newName": "Renamed"}}), "rename");
            let r = ask!(json!({"cmd": "pos_to_offset", "text": text, "line": line, "character": ch}), "pos_to_offset");
            if let Some(off) = r["offset"].as_u64() {
                let off = off as usize;
                if off > text.len() || !text.is_char_boundary(off) {
                    let sig = if off > text.len() { "C30:pos_to_offset_beyond_text" } else { "C30:pos_to_offset_inside_character" };
                    return Verdict::Fail(sig.into(), format!("position {line}:{ch} -> offset {off}, text has {} bytes\ntext {text:?}", text.len()));
                }
            }
            let lines: Vec<&str> = text.split('\n').collect();
            let beyond = lines.get(*line as usize).map(|l| *ch as usize > l.chars().count()).unwrap_or(true);
            let multibyte = lines.get(*line as usize).is_some_and(|l| !l.is_ascii());
            if beyond || multibyte {
                st.nontrivial(hash_of(&(text, line, ch)));
            }
        }
        st.sample(|| json!({"text": crate::util::trunc(text, 160), "positions": c.positions.len()}));
        Verdict::Pass
    }
}

// ---------------------------------------------------------------------------------------------
pub struct C27;

#[derive(Clone, Debug, Serialize, Deserialize)]
pub struct FormatCase {
    pub text: String,
    pub empty_line_after_prod: bool,
    pub prod_semicolon_on_nl: bool,
    pub max_line_length: u32,
    pub tab_size: u32,
    pub comments_anywhere: bool,
}

/// comments of a PAR text in order (line comments without their line end, block comments)
pub fn par_comments(text: &str) -> Vec<String> {
    let b: Vec<char> = text.chars().collect();
    let mut out = vec![];
    let mut i = 0;
    while i < b.len() {
        let c = b[i];
        if c == '\'' || c == '"' {
            let q = c;
            i += 1;
            while i < b.len() && b[i] != q {
                if b[i] == '\\' {
                    i += 1;
                }
                i += 1;
            }
            i += 1;
        } else if c == '/' && b.get(i + 1) == Some(&'/') {
            let s = i;
            while i < b.len() && b[i] != '\n' && b[i] != '\r' {
                i += 1;
            }
            out.push(b[s..i].iter().collect::<String>().trim_end().to_string());
        } else if c == '/' && b.get(i + 1) == Some(&'*') {
            let s = i;
            i += 2;
            while i + 1 < b.len() && !(b[i] == '*' && b[i + 1] == '/') {
                i += 1;
            }
            i = (i + 2).min(b.len());
            out.push(b[s..i].iter().collect::<String>());
        } else if c == '/' {
            // regex literal
            i += 1;
            while i < b.len() && b[i] != '/' {
                if b[i] == '\\' {
                    i += 1;
                }
                i += 1;
            }
            i += 1;
        } else {
            i += 1;
        }
    }
    out
}

fn insert_comments(text: &str, t: &mut Tape, anywhere: bool) -> String {
    // `anywhere`: at every token boundary; otherwise only standalone comment lines in front of
    // top-level items and trailing comments behind complete declarations / productions
    let mut out = String::new();
    let mut n = 0;
    let lines: Vec<&str> = text.split('\n').collect();
    let last_item_line = lines.iter().rposition(|l| l.trim_end().ends_with(';')).unwrap_or(usize::MAX);
    // in the restricted mode a comment never directly follows another comment
    let mut just_commented = false;
    for (li, line) in lines.iter().enumerate() {
        let toks = super::gen_props::tokenize_par_pub(line);
        let top_level_start = line.chars().next().is_some_and(|c| !c.is_whitespace()) && !line.starts_with('}');
        if top_level_start && (anywhere || !just_commented) {
            if t.next(10) == 9 {
                n += 1;
                out.push_str(&format!("// standalone {n}\n"));
            } else if t.next(14) == 13 {
                n += 1;
                out.push_str(&format!("/* block {n} */\n"));
            }
        }
        if !toks.is_empty() {
            just_commented = false;
        }
        if toks.is_empty() {
            // keep empty lines
        } else if anywhere {
            let indent: String = line.chars().take_while(|c| c.is_whitespace()).collect();
            out.push_str(&indent);
            for (i, tk) in toks.iter().enumerate() {
                if i > 0 {
                    out.push(' ');
                }
                if t.next(14) == 13 {
                    n += 1;
                    out.push_str(&format!("/* c{n} */ "));
                }
                out.push_str(tk);
            }
            if t.next(10) == 9 {
                n += 1;
                out.push_str(&format!(" // trailing {n} \u{e4}"));
            }
        } else {
            out.push_str(line);
            let complete = line.trim_end().ends_with(';') || (line.starts_with('%') && !line.trim_end().ends_with('{') && !line.starts_with("%%"));
            if complete && li != last_item_line && t.next(8) == 7 {
                n += 1;
                out.push_str(&format!(" // trailing {n} \u{e4}"));
                just_commented = true;
            }
        }
        if li + 1 < lines.len() {
            out.push('\n');
        }
    }
    out
}

fn apply_full_edit(r: &Value) -> Option<String> {
    // the formatter returns one edit that replaces the whole document
    let edits = r["result"].as_array()?;
    if edits.len() != 1 {
        return None;
    }
    edits[0]["newText"].as_str().map(|s| s.to_string())
}

impl Check for C27 {
    type Case = FormatCase;
    fn id(&self) -> &'static str {
        "C27"
    }
    fn rule(&self) -> String {
        "case = valid PAR text (generated grammars with all annotations and declarations) with line and block comments inserted at random token boundaries (before %%, inside groups, after the last production, trailing on a line, standalone lines; non-ASCII text in comments), LF or CRLF x options {empty_line_after_prod, prod_semicolon_on_nl, max_line_length in {20, 40, 100, 1000}, tab size}; oracle on f = format(t, o): (1) parol reads f and its GrammarConfig equals that of t on every aspect C25 compares, (2) the comments of f are the comments of t in the same order (modulo trailing white space), (3) format(f, o) = f. Evaluations = (text, options) pairs. Non-trivial = text with >= 2 comments; distinct by (text, options)".into()
    }
    fn strategy(&self, tier: Tier) -> BoxedStrategy<FormatCase> {
        (valid_texts(tier), tape(30..80), any::<[bool; 4]>(), proptest::sample::select(vec![20u32, 40, 100, 1000]), proptest::sample::select(vec![2u32, 4, 8]))
            .prop_map(|(t, tp, f, mll, tab)| {
                let mut text = insert_comments(&t, &mut Tape { data: &tp, pos: 0 }, f[3]);
                if f[2] {
                    text = text.replace('\n', "\r\n");
                }
                FormatCase { text, empty_line_after_prod: f[0], prod_semicolon_on_nl: f[1], max_line_length: mll, tab_size: tab, comments_anywhere: f[3] }
            })
            .boxed()
    }
    fn cases(&self, tier: Tier) -> u32 {
        tier.pick(4500, 80000)
    }
    fn fixed_cases(&self) -> Vec<FormatCase> {
        let mk = |text: &str, anywhere: bool| FormatCase { text: text.to_string(), empty_line_after_prod: true, prod_semicolon_on_nl: true, max_line_length: 100, tab_size: 4, comments_anywhere: anywhere };
        vec![
            // the three recorded shapes, re-confirmed on every run
            mk("%start S\n%auto_newline_off // first\n// second\n%auto_ws_off\n%%\nS: 'a';\n", false),
            mk("%start S\n%%\nS: 'a'; // after the last production\n", false),
            mk("%start S\n%%\nS: <INITIAL, /* inside */ INITIAL>'a';\n", true),
        ]
    }
    fn run(&self, c: &FormatCase, st: &mut Stats) -> Verdict {
        match self.run_inner(c, st) {
            Verdict::Fail(sig, msg) => {
                let t = &c.text;
                // recorded shapes
                let lines: Vec<&str> = t.lines().collect();
                let comment_after_line_comment = lines.windows(2).any(|w| w[0].contains("//") && { let n = w[1].trim_start(); n.starts_with("//") || n.starts_with("/*") });
                let last_item = lines.iter().rposition(|l| l.trim_end().ends_with(';') || l.contains("; //") || l.contains("; /*"));
                let comment_after_last_item = last_item.is_some_and(|i| lines[i].contains("; //") || lines[i].contains("; /*") || lines[i + 1..].iter().any(|l| l.contains("//") || l.contains("/*")));
                let sig2 = if c.comments_anywhere {
                    "C27:comment_inside_a_construct_mishandled".to_string()
                } else if comment_after_line_comment {
                    "C27:comment_directly_after_line_comment_is_joined_to_it".to_string()
                } else if comment_after_last_item {
                    "C27:comment_after_the_last_production_left_over".to_string()
                } else {
                    sig
                };
                Verdict::Fail(sig2, msg)
            }
            v => v,
        }
    }
}

impl C27 {
    fn run_inner(&self, c: &FormatCase, st: &mut Stats) -> Verdict {
        let t = &c.text;
        let Ok(fp_t) = fingerprint_of_text(t) else { return Verdict::Skip("text is not a valid grammar".into()) };
        let opts = json!({"tabSize": c.tab_size, "insertSpaces": true});
        let format = |text: &str| -> Result<Option<String>, String> {
            call(json!({"cmd": "new_server", "max_k": 1}))?;
            call(json!({"cmd": "configure", "props": {
                "formatting.empty_line_after_prod": c.empty_line_after_prod,
                "formatting.prod_semicolon_on_nl": c.prod_semicolon_on_nl,
                "formatting.max_line_length": c.max_line_length}}))?;
            call(json!({"cmd": "open", "uri": URI, "version": 1, "text": text}))?;
            let r = call(json!({"cmd": "request", "method": "textDocument/formatting", "params": {"textDocument": {"uri": URI}, "options": opts}}))?;
            if let Some(p) = r.get("panic") {
                return Err(format!("PANIC {p}"));
            }
            Ok(apply_full_edit(&r))
        };
        st.eval(1);
        let ctx = |f: &str| format!("options {:?}\noriginal:\n{t}\nformatted:\n{f}", (c.empty_line_after_prod, c.prod_semicolon_on_nl, c.max_line_length, c.tab_size));
        let f = match format(t) {
            Ok(Some(f)) => f,
            Ok(None) => return Verdict::Fail("C27:no_formatting_result_for_valid_text".into(), ctx("")),
            Err(e) if e.starts_with("PANIC") => {
                let sig = if e.contains("comments.is_empty()") {
                    if c.comments_anywhere { "C27:comment_inside_a_construct_left_over" } else { "C27:comment_between_items_left_over" }
                } else {
                    "C27:formatter_panics"
                };
                return Verdict::Fail(sig.into(), format!("{e}\n{}", ctx("")));
            }
            Err(e) => return Verdict::Fail("C27:server_process_dies_while_formatting".into(), format!("{e}\n{}", ctx(""))),
        };
        match fingerprint_of_text(&f) {
            Ok(fp_f) => {
                if fp_f != fp_t {
                    let i = fp_t.iter().zip(&fp_f).position(|(a, b)| a != b).unwrap_or(fp_t.len().min(fp_f.len()));
                    return Verdict::Fail("C27:formatting_changes_the_grammar".into(), format!("before: {:?}\nafter:  {:?}\n{}", fp_t.get(i), fp_f.get(i), ctx(&f)));
                }
            }
            Err(e) => return Verdict::Fail("C27:formatted_text_is_not_a_valid_grammar".into(), format!("{e}\n{}", ctx(&f))),
        }
        let (ct, cf) = (par_comments(t), par_comments(&f));
        if ct != cf {
            let i = ct.iter().zip(&cf).position(|(a, b)| a != b).unwrap_or(ct.len().min(cf.len()));
            let sig = if cf.len() < ct.len() { "C27:formatting_loses_comment" } else if cf.len() > ct.len() { "C27:formatting_duplicates_comment" } else { "C27:formatting_changes_or_reorders_comments" };
            return Verdict::Fail(sig.into(), format!("comment #{i}: {:?} vs {:?}\nall before {ct:?}\nall after {cf:?}\n{}", ct.get(i), cf.get(i), ctx(&f)));
        }
        match format(&f) {
            Ok(Some(f2)) => {
                if f2 != f {
                    let la: Vec<&str> = f.lines().collect();
                    let lb: Vec<&str> = f2.lines().collect();
                    let i = la.iter().zip(&lb).position(|(a, b)| a != b).unwrap_or(la.len().min(lb.len()));
                    return Verdict::Fail("C27:formatting_is_not_idempotent".into(), format!("line {i}: {:?} becomes {:?}\n{}\nformatted twice:\n{f2}", la.get(i), lb.get(i), ctx(&f)));
                }
            }
            Ok(None) => return Verdict::Fail("C27:formatted_text_not_formattable".into(), ctx(&f)),
            Err(e) => return Verdict::Fail("C27:formatter_fails_on_formatted_text".into(), format!("{e}\n{}", ctx(&f))),
        }
        if ct.len() >= 2 {
            st.nontrivial(hash_of(&format!("{c:?}")));
        }
        st.class(&format!("comments={}", ct.len().min(6)));
        st.sample(|| json!({"text": crate::util::trunc(t, 300), "max_line_length": c.max_line_length}));
        Verdict::Pass
    }
}

// ---------------------------------------------------------------------------------------------
pub struct C28;

#[derive(Clone, Debug, Serialize, Deserialize)]
pub struct RenameCase {
    pub text: String,
    pub new_name: String,
}

/// identifier tokens of a PAR text outside literals and comments: (name, line, character, byte offset)
fn identifiers(text: &str) -> Vec<(String, u32, u32, usize)> {
    let chars: Vec<(usize, char)> = text.char_indices().collect();
    let mut out = vec![];
    let (mut line, mut col) = (0u32, 0u32);
    let mut i = 0;
    let adv = |c: char, line: &mut u32, col: &mut u32| {
        if c == '\n' {
            *line += 1;
            *col = 0;
        } else {
            *col += 1;
        }
    };
    while i < chars.len() {
        let (off, c) = chars[i];
        if c == '\'' || c == '"' || (c == '/' && chars.get(i + 1).map(|x| x.1) != Some('/') && chars.get(i + 1).map(|x| x.1) != Some('*')) {
            let q = c;
            adv(c, &mut line, &mut col);
            i += 1;
            while i < chars.len() && chars[i].1 != q {
                if chars[i].1 == '\\' {
                    adv(chars[i].1, &mut line, &mut col);
                    i += 1;
                    if i >= chars.len() {
                        break;
                    }
                }
                adv(chars[i].1, &mut line, &mut col);
                i += 1;
            }
            if i < chars.len() {
                adv(chars[i].1, &mut line, &mut col);
                i += 1;
            }
        } else if c == '/' && chars.get(i + 1).map(|x| x.1) == Some('/') {
            while i < chars.len() && chars[i].1 != '\n' {
                adv(chars[i].1, &mut line, &mut col);
                i += 1;
            }
        } else if c == '/' && chars.get(i + 1).map(|x| x.1) == Some('*') {
            while i < chars.len() && !(chars[i].1 == '*' && chars.get(i + 1).map(|x| x.1) == Some('/')) {
                adv(chars[i].1, &mut line, &mut col);
                i += 1;
            }
            for _ in 0..2 {
                if i < chars.len() {
                    adv(chars[i].1, &mut line, &mut col);
                    i += 1;
                }
            }
        } else if c.is_ascii_alphabetic() || c == '_' {
            let (sl, sc) = (line, col);
            let mut name = String::new();
            while i < chars.len() && (chars[i].1.is_ascii_alphanumeric() || chars[i].1 == '_') {
                name.push(chars[i].1);
                adv(chars[i].1, &mut line, &mut col);
                i += 1;
            }
            // directives like %start are not identifiers
            let is_directive = off > 0 && text[..off].ends_with('%');
            if !is_directive {
                out.push((name, sl, sc, off));
            }
        } else {
            adv(c, &mut line, &mut col);
            i += 1;
        }
    }
    out
}

fn apply_edits(text: &str, edits: &[(u32, u32, u32, u32, String)]) -> Option<String> {
    // (start line, start char, end line, end char, new text); character = char index in line
    let line_starts: Vec<usize> = std::iter::once(0).chain(text.match_indices('\n').map(|(i, _)| i + 1)).collect();
    let off = |l: u32, c: u32| -> Option<usize> {
        let s = *line_starts.get(l as usize)?;
        let line = &text[s..];
        let line = &line[..line.find('\n').unwrap_or(line.len())];
        let b = line.char_indices().nth(c as usize).map(|x| x.0).or(if line.chars().count() == c as usize { Some(line.len()) } else { None })?;
        Some(s + b)
    };
    let mut v: Vec<(usize, usize, &String)> = vec![];
    for (sl, sc, el, ec, nt) in edits {
        v.push((off(*sl, *sc)?, off(*el, *ec)?, nt));
    }
    v.sort_by(|a, b| b.0.cmp(&a.0));
    let mut out = text.to_string();
    let mut last_start = usize::MAX;
    for (s, e, nt) in v {
        if e > last_start || s > e {
            return None; // overlapping edits
        }
        out.replace_range(s..e, nt);
        last_start = s;
    }
    Some(out)
}

impl Check for C28 {
    type Case = RenameCase;
    fn id(&self) -> &'static str {
        "C28"
    }
    fn rule(&self) -> String {
        "case = valid PAR text (generated grammars with %nt_type, %skip, %on, %scanner blocks, <State> lists, member names, user types, comments and BMP non-ASCII text in comments) x every occurrence of a non-terminal or scanner-state identifier x a fresh new name; the generator keeps the name spaces (non-terminals, scanner states, aliases, member names, user types) disjoint, so the expected result is the text with exactly the identifier tokens equal to the old name (outside literals and comments) replaced; oracle: prepareRename accepts the position (and refuses the start symbol and INITIAL), the edits returned by rename, applied to the text, give exactly the expected text. Evaluations = rename requests. Non-trivial = renamed symbol with >= 3 occurrences including one in a declaration (%nt_type / %skip / %on / %enter / %push / <State> list / %scanner header); distinct by (text, old name)".into()
    }
    fn strategy(&self, tier: Tier) -> BoxedStrategy<RenameCase> {
        (valid_texts(tier), proptest::sample::select(vec!["Renamed", "X9", "new_name", "Zz"]))
            .prop_map(|(t, n)| RenameCase { text: t.replacen("%%", "// \u{e4}\u{4e2d} names: S A B State0\n%%", 1), new_name: n.to_string() })
            .boxed()
    }
    fn cases(&self, tier: Tier) -> u32 {
        tier.pick(3000, 40000)
    }
    fn run(&self, c: &RenameCase, st: &mut Stats) -> Verdict {
        let t = &c.text;
        let gc = match crate::pipeline::read_grammar(t) {
            Ok(g) => g,
            Err(_) => return Verdict::Skip("text is not a valid grammar".into()),
        };
        let ids = identifiers(t);
        let nts: std::collections::BTreeSet<String> = gc.cfg.pr.iter().map(|p| p.get_n()).filter(|n| ids.iter().any(|i| &i.0 == n)).collect();
        let states: std::collections::BTreeSet<String> = gc.scanner_configurations.iter().map(|s| s.scanner_name.clone()).collect();
        if ids.iter().any(|i| i.0 == c.new_name) {
            return Verdict::Skip("new name is not fresh".into());
        }
        let start = gc.cfg.st.clone();
        let bad = |v: &Value| v.get("panic").map(|p| p.to_string());
        macro_rules! ask {
            ($cmd:expr) => {{
                match call($cmd) {
                    Ok(v) => {
                        if let Some(p) = bad(&v) {
                            return Verdict::Fail("C28:request_panics".into(), format!("{p}\n{t}"));
                        }
                        v
                    }
                    Err(e) => return Verdict::Fail("C28:server_process_dies".into(), format!("{e}\n{t}")),
                }
            }};
        }
        ask!(json!({"cmd": "new_server", "max_k": 1}));
        ask!(json!({"cmd": "open", "uri": URI, "version": 1, "text": t}));
        let names: Vec<String> = nts.iter().chain(states.iter()).cloned().collect();
        for old in names {
            let occ: Vec<&(String, u32, u32, usize)> = ids.iter().filter(|i| i.0 == old).collect();
            if occ.is_empty() {
                continue;
            }
            let is_state = states.contains(&old);
            let refuse = old == start || old == "INITIAL";
            // expected text
            let mut expected = t.clone();
            let mut offs: Vec<usize> = occ.iter().map(|o| o.3).collect();
            offs.sort_by(|a, b| b.cmp(a));
            for o in &offs {
                expected.replace_range(*o..*o + old.len(), &c.new_name);
            }
            for o in &occ {
                st.eval(1);
                let pos = json!({"line": o.1, "character": o.2});
                let prep = ask!(json!({"cmd": "request", "method": "textDocument/prepareRename", "params": {"textDocument": {"uri": URI}, "position": pos}}));
                let accepted = !prep["result"].is_null();
                let ctx = || format!("symbol {old} ({}) at {}:{}\n{t}", if is_state { "scanner state" } else { "non-terminal" }, o.1, o.2);
                if refuse {
                    if accepted {
                        return Verdict::Fail("C28:protected_symbol_offered_for_rename".into(), ctx());
                    }
                    continue;
                }
                if !accepted {
                    return Verdict::Fail(
                        format!("C28:occurrence_refused_{}", if is_state { "scanner_state" } else { "non_terminal" }),
                        format!("prepareRename refuses this occurrence\n{}", ctx()),
                    );
                }
                let r = ask!(json!({"cmd": "request", "method": "textDocument/rename", "params": {"textDocument": {"uri": URI}, "position": pos, "newName": c.new_name}}));
                let mut edits = vec![];
                let mut collect = |e: &Value| {
                    let r = &e["range"];
                    edits.push((
                        r["start"]["line"].as_u64().unwrap_or(0) as u32,
                        r["start"]["character"].as_u64().unwrap_or(0) as u32,
                        r["end"]["line"].as_u64().unwrap_or(0) as u32,
                        r["end"]["character"].as_u64().unwrap_or(0) as u32,
                        e["newText"].as_str().unwrap_or("").to_string(),
                    ));
                };
                if let Some(dc) = r["result"]["documentChanges"].as_array() {
                    for d in dc {
                        for e in d["edits"].as_array().cloned().unwrap_or_default() {
                            collect(&e);
                        }
                    }
                }
                if let Some(ch) = r["result"]["changes"].as_object() {
                    for (_, v) in ch {
                        for e in v.as_array().cloned().unwrap_or_default() {
                            collect(&e);
                        }
                    }
                }
                if edits.is_empty() {
                    return Verdict::Fail("C28:rename_returns_no_edits".into(), format!("{}\nanswer {r}", ctx()));
                }
                // duplicates of the same edit are tolerated (applying a replace twice at the same range is one edit)
                edits.sort();
                edits.dedup();
                let Some(got) = apply_edits(t, &edits) else {
                    return Verdict::Fail("C28:edits_overlap_or_out_of_range".into(), format!("edits {edits:?}\n{}", ctx()));
                };
                if got != expected {
                    let la: Vec<&str> = got.lines().collect();
                    let lb: Vec<&str> = expected.lines().collect();
                    let i = la.iter().zip(&lb).position(|(a, b)| a != b).unwrap_or(la.len().min(lb.len()));
                    let sig = if is_state { "C28:scanner_state_rename_incomplete_or_wrong" } else { "C28:non_terminal_rename_incomplete_or_wrong" };
                    return Verdict::Fail(sig.into(), format!("line {i}: got {:?}, expected {:?}\nedits {edits:?}\n{}", la.get(i), lb.get(i), ctx()));
                }
            }
            if !refuse && occ.len() >= 3 {
                let in_decl = occ.iter().any(|o| {
                    let line = t.lines().nth(o.1 as usize).unwrap_or("");
                    line.contains('%') || line.contains('<')
                });
                if in_decl {
                    st.nontrivial(hash_of(&(t, &old)));
                }
            }
            st.class(if is_state { "renamed_scanner_state" } else if refuse { "refused_start_symbol" } else { "renamed_non_terminal" });
        }
        st.sample(|| json!({"text": crate::util::trunc(t, 300), "new_name": c.new_name}));
        Verdict::Pass
    }
}

// ---------------------------------------------------------------------------------------------
pub struct C29;

#[derive(Clone, Debug, Serialize, Deserialize)]
pub struct HistoryCase {
    /// index into the text pool per version (version = index + 1)
    pub versions: Vec<usize>,
    /// release order: positions into `versions` (a permutation); entries whose version started no
    /// background analysis are skipped by the server side
    pub release: Vec<usize>,
    /// per version: its background analysis finishes before the server publishes the synchronous
    /// result of that version (the other order is the default)
    #[serde(default)]
    pub early: Vec<bool>,
}

const POOL: &[(&str, &str)] = &[
    ("valid_ll", "%start S\n%%\nS: 'a' B;\nB: 'b' | 'c';\n"),
    ("valid_ll_2", "%start S\n%%\nS: { 'x' } 'y';\n"),
    ("syntax_error", "%start S\n%%\nS: 'a' ;;\n"),
    ("ll_conflict", "%start S\n%%\nS: A 'x' | A 'y';\nA: 'a' A | ;\n"),
    ("lr_conflict", "%start E\n%grammar_type 'lalr(1)'\n%%\nE: E '+' E | 'n';\n"),
    ("valid_lr", "%start E\n%grammar_type 'lalr(1)'\n%%\nE: E '+' T | T;\nT: 'n';\n"),
    ("non_productive", "%start S\n%%\nS: 'a' B;\nB: 'b' B;\n"),
    ("left_recursive_ll", "%start S\n%%\nS: S 'a' | 'b';\n"),
];

fn last_publish(notifications: &Value) -> Option<(i64, Value)> {
    notifications["notifications"].as_array()?.iter().rev().find(|n| n["method"] == "textDocument/publishDiagnostics").map(|n| {
        let mut d = n["params"]["diagnostics"].clone();
        // related information carries document URIs only
        if let Some(a) = d.as_array_mut() {
            for x in a.iter_mut() {
                if let Some(o) = x.as_object_mut() {
                    o.remove("data");
                }
            }
        }
        (n["params"]["version"].as_i64().unwrap_or(-1), d)
    })
}

impl Check for C29 {
    type Case = HistoryCase;
    fn id(&self) -> &'static str {
        "C29"
    }
    fn rule(&self) -> String {
        "case = history open v1, change v2 .. vn (n <= 5) over a pool of texts {valid LL, syntax error, LL(k) conflict found by the background analysis, LR conflict, valid LR, non-productive, left-recursive} plus a completion order (permutation) for the background analyses, which the harness owns through the cfg-guarded gate (an analysis blocks on its first access to the grammar until its version is released; the driver waits for it to finish before releasing the next) and, per version, whether its analysis finishes before or after the server publishes that version's synchronous result (second guarded hook at the top of notify_analysis_ok); oracle: after all analyses have finished the last publishDiagnostics notification carries version n and equals what a fresh server publishes last for text n alone when its analysis runs after the synchronous result. Evaluations = histories. Non-trivial = history in which an analysis of an older version is released after a newer version was published; distinct by history".into()
    }
    fn strategy(&self, _tier: Tier) -> BoxedStrategy<HistoryCase> {
        (proptest::collection::vec(0usize..POOL.len(), 1..=5), tape(10..11))
            .prop_map(|(versions, tp)| {
                let mut t = Tape { data: &tp, pos: 0 };
                let mut idx: Vec<usize> = (0..versions.len()).collect();
                let mut release = vec![];
                while !idx.is_empty() {
                    release.push(idx.remove(t.next(idx.len())));
                }
                let early = versions.iter().map(|_| t.next(4) == 3).collect();
                HistoryCase { versions, release, early }
            })
            .boxed()
    }
    fn cases(&self, tier: Tier) -> u32 {
        tier.pick(2400, 30000)
    }
    fn run(&self, c: &HistoryCase, st: &mut Stats) -> Verdict {
        let n = c.versions.len();
        macro_rules! ask {
            ($cmd:expr) => {{
                match call($cmd) {
                    Ok(v) => {
                        if let Some(p) = v.get("panic") {
                            return Verdict::Fail("C29:server_panics".into(), format!("{p}\nhistory {c:?}"));
                        }
                        v
                    }
                    Err(e) => return Verdict::Fail("C29:server_process_dies".into(), format!("{e}\nhistory {c:?}")),
                }
            }};
        }
        // reference: fresh server, only the final text, synchronous result first, then the
        // background analysis (gated, so that the reference itself does not depend on scheduling)
        let final_text = POOL[c.versions[n - 1]].1;
        ask!(json!({"cmd": "new_server", "max_k": 2}));
        ask!(json!({"cmd": "gating", "on": true}));
        ask!(json!({"cmd": "open", "uri": URI, "version": n, "text": final_text}));
        ask!(json!({"cmd": "release", "version": n}));
        ask!(json!({"cmd": "gating", "on": false}));
        let idle0 = ask!(json!({"cmd": "wait_idle"}));
        if idle0["finished"].as_u64() < idle0["spawned"].as_u64() {
            return Verdict::Broken(format!("background analysis of the reference server did not finish within the driver's deadline: {idle0}"));
        }
        let Some((_, want)) = last_publish(&ask!(json!({"cmd": "diagnostics"}))) else {
            return Verdict::Broken("fresh server publishes nothing".into());
        };
        // the history, gated
        ask!(json!({"cmd": "new_server", "max_k": 2}));
        ask!(json!({"cmd": "gating", "on": true}));
        let early: Vec<usize> = (0..n).filter(|i| c.early.get(*i).copied().unwrap_or(false)).map(|i| i + 1).collect();
        if !early.is_empty() {
            ask!(json!({"cmd": "early", "versions": early}));
            st.class("history_with_analysis_finishing_before_the_synchronous_result");
        }
        for (i, v) in c.versions.iter().enumerate() {
            let cmd = if i == 0 { "open" } else { "change" };
            ask!(json!({"cmd": cmd, "uri": URI, "version": i + 1, "text": POOL[*v].1}));
        }
        for r in &c.release {
            // release this version's analysis (if it started one); the driver waits until it is done
            ask!(json!({"cmd": "release", "version": r + 1}));
        }
        ask!(json!({"cmd": "gating", "on": false}));
        let idle = ask!(json!({"cmd": "wait_idle"}));
        if idle["finished"].as_u64() < idle["spawned"].as_u64() {
            // the driver's deadline passed with analyses still running (overloaded machine):
            // the history is not complete, nothing can be concluded
            return Verdict::Broken(format!("background analyses did not finish within the driver's deadline: {idle}"));
        }
        st.eval(1);
        let Some((version, got)) = last_publish(&ask!(json!({"cmd": "diagnostics"}))) else {
            return Verdict::Fail("C29:nothing_published".into(), format!("history {c:?}"));
        };
        let names: Vec<&str> = c.versions.iter().map(|v| POOL[*v].0).collect();
        let stale_possible = c.release.iter().position(|r| *r == n - 1).is_some_and(|p| p + 1 < c.release.len());
        if version != n as i64 {
            return Verdict::Fail(
                "C29:last_diagnostics_carry_old_version".into(),
                format!("last published diagnostics have version {version}, final version is {n}\nhistory {names:?}, release order (0-based version index) {:?}\nlast diagnostics {got}", c.release),
            );
        }
        if got != want {
            return Verdict::Fail(
                "C29:last_diagnostics_differ_from_final_text".into(),
                format!("history {names:?}, release order {:?}\nlast published: {got}\nfresh server on final text: {want}", c.release),
            );
        }
        if stale_possible && n >= 2 {
            st.class("older_analysis_released_after_final_version");
            st.nontrivial(hash_of(&format!("{c:?}")));
        }
        st.sample(|| json!({"history": names, "release_order": c.release}));
        Verdict::Pass
    }
}

//! Shared pieces of the parser-level checks: case type, strategy, preparation of a grammar.

use crate::ast::*;
use crate::chart;
use crate::engine::{Stats, Tier, tape};
use crate::gens::{self, GenParams, Input};
use crate::loader::{self, Loaded};
use crate::pipeline::{self, Built, Fail, Opts};
use proptest::prelude::*;
use proptest::strategy::BoxedStrategy;
use serde::{Deserialize, Serialize};

#[derive(Clone, Debug, Serialize, Deserialize)]
pub struct ParseCase {
    pub grammar: Grammar,
    pub max_k: usize,
    pub inputs: Vec<Input>,
}

pub fn decode_case(gt: &[u16], k: usize, its: &[Vec<u16>], p: &GenParams, lr: bool, sentences_only: bool) -> ParseCase {
    decode_case_la(gt, k, its, p, lr, sentences_only, false)
}

/// `la_variants`: a quarter of the grammars get lookahead variants of a terminal text (only for
/// checks that take the token sequence from the real scanner)
pub fn decode_case_la(gt: &[u16], k: usize, its: &[Vec<u16>], p: &GenParams, lr: bool, sentences_only: bool, la_variants: bool) -> ParseCase {
    let mut t = chart::Tape { data: gt, pos: 0 };
    let mut grammar = gens::grammar(&mut t, p);
    if lr {
        grammar.gtype = Some(GType::LALR);
    }
    if la_variants && t.next(4) == 3 {
        gens::lookahead_variants(&mut grammar, &mut t);
    }
    // a quarter of these grammars also carries AST control (clipped symbols, member names, user
    // types): irrelevant for the language, but part of what the generated tables are made from
    if la_variants && t.next(4) == 3 {
        gens::ast_annotate(&mut grammar, &mut t);
    }
    let ig = IGrammar::from(&grammar);
    let h = chart::min_heights(&ig);
    let inputs = its.iter().map(|t| gens::input_mode(&ig, &h, t, sentences_only)).collect();
    // bound the lookahead limit by the alphabet size: parol's k-tuple sets grow like |T|^k for
    // grammars that are undecidable at every k, which would only measure patience
    let nt = (ig.terms.len() + 1) as f64;
    let kmax = ((30000f64).ln() / nt.ln()).floor() as usize;
    ParseCase { grammar, max_k: k.min(kmax.max(1)), inputs }
}

pub fn parse_case_strategy(p: GenParams, lr: bool, n_inputs: usize) -> BoxedStrategy<ParseCase> {
    parse_case_strategy_mode(p, lr, n_inputs, false)
}

/// as `parse_case_strategy`, with lookahead variants of terminals in a quarter of the grammars
pub fn parse_case_strategy_la(p: GenParams, lr: bool, n_inputs: usize) -> BoxedStrategy<ParseCase> {
    let ks = if lr { vec![1usize] } else { vec![1usize, 2, 3, 3, 5, 5, 10] };
    (tape(40..140), proptest::sample::select(ks), proptest::collection::vec(tape(12..48), n_inputs..=n_inputs))
        .prop_map(move |(gt, k, its)| decode_case_la(&gt, k, &its, &p, lr, false, true))
        .boxed()
}

pub fn parse_case_strategy_mode(p: GenParams, lr: bool, n_inputs: usize, sentences_only: bool) -> BoxedStrategy<ParseCase> {
    let ks = if lr { vec![1usize] } else { vec![1usize, 2, 3, 3, 5, 5, 10] };
    (tape(40..140), proptest::sample::select(ks), proptest::collection::vec(tape(12..48), n_inputs..=n_inputs))
        .prop_map(move |(gt, k, its)| decode_case(&gt, k, &its, &p, lr, sentences_only))
        .boxed()
}

pub struct Ready {
    pub built: Built,
    pub loaded: Loaded,
    /// my terminal index -> generated token type
    pub tmap: Vec<Option<u16>>,
    pub ig: IGrammar,
}

pub enum Prep {
    Ready(Box<Ready>),
    Rejected(Fail),
    /// the generated source could not be loaded (harness limitation or generator defect)
    LoadErr(String),
}

/// expanded scanner pattern of a terminal as parol documents it: raw strings are escaped,
/// strings and regexes are taken verbatim
pub fn expected_pattern(t: &Term) -> String {
    match t.lit.quote {
        Quote::Raw => regex::escape(&t.lit.text),
        _ => t.lit.text.clone(),
    }
}

pub fn prepare(g: &Grammar, opts: &Opts) -> Prep {
    let text = g.print();
    let built = match pipeline::build(&text, opts) {
        Ok(b) => b,
        Err(f) => return Prep::Rejected(f),
    };
    let loaded = match crate::util::guard(|| loader::load(&built.parser_src)) {
        Ok(Ok(l)) => l,
        Ok(Err(e)) => return Prep::LoadErr(e),
        Err(p) => return Prep::LoadErr(format!("panic while loading: {p}")),
    };
    let ig = IGrammar::from(g);
    let tmap = ig
        .terms
        .iter()
        .map(|t| {
            let pat = expected_pattern(t);
            let la = t.lookahead.as_ref().map(|(p, l)| {
                (*p, match l.quote { Quote::Raw => regex::escape(&l.text), _ => l.text.clone() })
            });
            loaded
                .tables
                .modes
                .iter()
                .flat_map(|m| m.tokens.iter())
                .find(|(p, i, l)| *p == pat && *i >= 5 && *l == la)
                .map(|(_, i, _)| *i as u16)
        })
        .collect();
    Prep::Ready(Box::new(Ready { built, loaded, tmap, ig }))
}

impl Ready {
    /// maps real token types back to my terminal indices (usize::MAX = no terminal of the grammar)
    pub fn back(&self, ty: u16) -> usize {
        self.tmap.iter().position(|t| *t == Some(ty)).unwrap_or(usize::MAX)
    }
    pub fn is_skip_type(&self, ty: u16) -> bool {
        (1..5).contains(&ty) || ty == u16::MAX - 1
    }
    pub fn max_k(&self) -> usize {
        self.loaded.tables.max_k.unwrap_or(1)
    }
}

pub fn grammar_features(g: &Grammar, st: &mut Stats) {
    st.class(&format!("grammar/nts={}", g.nts().len()));
    st.class(&format!("grammar/ebnf_constructs={}", g.count_constructs().min(6)));
}

pub fn tier_params(tier: Tier, mut p: GenParams) -> GenParams {
    if tier == Tier::Thorough {
        p.max_nt += 1;
        p.max_t += 1;
        p.max_len += 1;
    }
    p
}

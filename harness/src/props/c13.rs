//! C13 The scanner tokenizes by the documented rules

use super::scan::*;
use crate::engine::*;
use crate::interp::{self, Node, Outcome, RunOpts, Tok};
use crate::loader;
use crate::pipeline::{self, Opts};
use crate::rx::*;
use crate::util::{guard, hash_of};
use proptest::strategy::BoxedStrategy;
use serde_json::json;

pub struct C13;

pub fn show_toks(v: &[(u16, usize, usize)], input: &str) -> String {
    v.iter().map(|(t, s, e)| format!("{t}:{:?}", input.get(*s..*e).unwrap_or("<bad span>"))).collect::<Vec<_>>().join(" ")
}

/// builds and loads the generated parser of a scanner case
pub fn load_case(c: &ScanCase) -> Result<(loader::Loaded, String), Verdict> {
    let g = c.grammar();
    let text = g.print();
    let built = match pipeline::build(&text, &Opts::default()) {
        Ok(b) => b,
        Err(f) => return Err(Verdict::Skip(format!("rejected at {:?}: {}", f.stage(), crate::util::trunc(f.msg().rsplit(": ").next().unwrap_or(""), 40)))),
    };
    let l = match guard(|| loader::load(&built.parser_src)) {
        Ok(Ok(l)) => l,
        Ok(Err(e)) => return Err(Verdict::Skip(format!("generated scanner not loadable: {}", crate::util::trunc(&e, 60)))),
        Err(p) => return Err(Verdict::Skip(format!("scanner generation panics (invalid regex for scnr2?): {}", crate::util::trunc(&p, 60)))),
    };
    if l.tables.terminal_names.len() != c.terms.len() + 6 {
        return Err(Verdict::Broken(format!("terminal numbering assumption broken: {} names for {} terminals\n{text}", l.tables.terminal_names.len(), c.terms.len())));
    }
    Ok((l, text))
}

/// Differential of the regular-expression engine alone: every terminal pattern of the case, as a
/// one-terminal scanner without lookahead, against the reference matcher on the suffixes of the
/// input.  Some(description) = scnr2 (the dependency) matches the pattern differently from the
/// regex semantics; such a token difference is not caused by anything in /repo.
pub fn scnr2_pattern_defect(c: &ScanCase, input: &str) -> Option<String> {
    use super::scan::{SMode, STerm};
    let chars: Vec<char> = input.chars().collect();
    let mut byte_of: Vec<usize> = input.char_indices().map(|(i, _)| i).collect();
    byte_of.push(input.len());
    for t in &c.terms {
        let single = ScanCase {
            terms: vec![STerm { rx: t.rx.clone(), quote: t.quote, lookahead: None, states: vec![], extra_states: vec![] }],
            modes: vec![SMode { name: "INITIAL".into(), auto_nl_off: true, auto_ws_off: true, allow_unmatched: true, ..Default::default() }],
            lr: false,
            inputs: vec![],
            marker: None,
        };
        let Ok((l, _)) = load_case(&single) else { continue };
        for p in 0..chars.len() {
            let suffix: String = chars[p..].iter().collect();
            let want = t.rx.ends_at(&chars, p).into_iter().filter(|e| *e > p).max().map(|e| byte_of[e] - byte_of[p]);
            let Ok(toks) = interp::drain(&l, &suffix, 1) else { continue };
            let got = toks.first().filter(|k| k.ty == 5 && k.start == 0).map(|k| k.end);
            if got != want {
                return Some(format!("pattern {} on {suffix:?}: scnr2 matches {got:?} bytes at the start, the regex semantics give {want:?}", t.rx.print()));
            }
        }
    }
    None
}

impl Check for C13 {
    type Case = ScanCase;
    fn id(&self) -> &'static str {
        "C13"
    }
    fn rule(&self) -> String {
        "case = 1-5 terminals from random regex ASTs over {a,b,c,0,+,.} (literals, classes, negated classes, '.', alternation, *, +, ?, groups; printed as '..', \"..\" or /../; overlapping patterns, prefixes of each other, positive/negative lookahead) declared each by its own primary production in a known order, 1-3 scanner states with random membership (a third of the multi-state cases give one or two terminals a further occurrence with another state list, behind a marker terminal: the terminal then belongs to the union of the states), %on .. %enter/%push/%pop transitions (pop on empty stack included), auto newline/whitespace on or off, %allow_unmatched, line/block comments; 6 inputs from pattern samples, stray characters, non-ASCII, comments and separators. Oracle: reference lexer implementing the documented rules on the regex ASTs (longest non-empty match, first declared on ties, lookahead at the match end, mode switching) compared token by token (type, byte span) with the real TokenStream drained through its public API for lookahead sizes 1, 2, 3, 5 and with the leaves of the parse tree for accepted inputs. Evaluations = (input, k) drains. Non-trivial = input where two patterns match at one position, or a state switch occurs; distinct by (grammar, input)".into()
    }
    fn strategy(&self, _tier: Tier) -> BoxedStrategy<ScanCase> {
        scan_case_strategy(ScanParams { multi_occ: true, ..ScanParams::default() }, 6)
    }
    fn cases(&self, tier: Tier) -> u32 {
        tier.pick(60000, 1000000)
    }
    fn fixed_cases(&self) -> Vec<ScanCase> {
        // recorded finding (scnr2): `b.|b.a` does not match "ba"
        use super::scan::{SMode, STerm};
        use crate::rx::Rx;
        let rx = Rx::Alt(vec![Rx::Seq(vec![Rx::Lit('b'), Rx::Dot]), Rx::Seq(vec![Rx::Lit('b'), Rx::Dot, Rx::Lit('a')])]);
        vec![ScanCase {
            terms: vec![STerm { rx, quote: crate::ast::Quote::Str, lookahead: None, states: vec![], extra_states: vec![] }],
            modes: vec![SMode { name: "INITIAL".into(), auto_nl_off: true, auto_ws_off: true, allow_unmatched: true, ..Default::default() }],
            lr: false,
            inputs: vec!["ba ".into()],
            marker: None,
        }]
    }
    fn run(&self, c: &ScanCase, st: &mut Stats) -> Verdict {
        let (l, text) = match load_case(c) {
            Ok(x) => x,
            Err(v) => return v,
        };
        let modes = c.ref_modes();
        let err_ty = c.error_ty();
        for input in &c.inputs {
            let want: Vec<(u16, usize, usize)> = ref_lex(&modes, input, err_ty).into_iter().map(|t| (t.ty, t.start, t.end)).collect();
            for k in [1usize, 2, 3, 5] {
                st.eval(1);
                let got = match interp::drain(&l, input, k) {
                    Ok(t) => t,
                    Err(e) => return Verdict::Fail("C13:token_stream_failure".into(), format!("{e}\ninput {input:?} k={k}\n{text}")),
                };
                let got: Vec<(u16, usize, usize)> = got.iter().filter(|t| t.ty != 0).map(|t| (t.ty, t.start, t.end)).collect();
                if got != want {
                    // recorded finding (scnr2, outside /repo): some patterns are matched differently
                    // from the regex semantics, e.g. `b.|b.a` does not match "ba"; decided by running
                    // every pattern of the case alone against the reference matcher
                    let defect = scnr2_pattern_defect(c, input);
                    let sig = if defect.is_some() {
                        "C13:scnr2_matches_a_pattern_differently_from_the_regex_semantics"
                    } else if k == 1 {
                        "C13:tokens_differ_from_documented_rules"
                    } else {
                        "C13:tokens_depend_on_lookahead_size"
                    };
                    if let Some(d) = &defect {
                        return Verdict::Fail(sig.into(), format!("{d}\ninput {input:?}\n{text}"));
                    }
                    return Verdict::Fail(sig.into(), format!("k={k} input {input:?}\nscanner:   {}\nreference: {}\n{text}", show_toks(&got, input), show_toks(&want, input)));
                }
            }
            // lazily consumed: the parser
            let run = interp::run(&l, input, &RunOpts::default(), 100_000);
            if let (Outcome::Ok, Some(tree)) = (&run.outcome, &run.tree) {
                let mut leaves: Vec<&Tok> = vec![];
                tree.leaves(&mut leaves);
                let got: Vec<(u16, usize, usize)> = leaves.iter().map(|t| (t.ty, t.start, t.end)).collect();
                if got != want {
                    return Verdict::Fail("C13:tokens_depend_on_consumption".into(), format!("input {input:?}\nparse tree leaves: {}\nreference: {}\n{text}", show_toks(&got, input), show_toks(&want, input)));
                }
                st.class("parsed_ok");
            }
            let _ = Node::T;
            // non-triviality: competing patterns or a mode switch
            let switches = modes.iter().any(|m| m.transitions.iter().any(|(t, _)| want.iter().any(|w| w.0 == *t)));
            let chars: Vec<char> = input.chars().collect();
            let competing = (0..chars.len()).any(|p| modes[0].terms.iter().filter(|t| !t.rx.ends_at(&chars, p).is_empty()).count() >= 2);
            if switches {
                st.class("with_state_switch");
            }
            if want.iter().any(|w| w.0 == T_INVALID) {
                st.class("with_unmatched_gap");
            }
            if switches || competing {
                st.nontrivial(hash_of(&(&text, input)));
            }
            st.sample(|| json!({"grammar": text, "input": input, "tokens": show_toks(&want, input)}));
        }
        Verdict::Pass
    }
}

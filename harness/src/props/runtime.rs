//! C19 never crash / always terminate, C20 parser options, C21 generated tables = analysis

use super::common::*;
use crate::ast::*;
use crate::chart::Tape;
use crate::engine::*;
use crate::gens::GenParams;
use crate::interp::{self, Outcome, RunOpts};
use crate::loader::{LrAct, Sym};
use crate::pipeline::{self, Opts};
use crate::util::hash_of;
use proptest::prelude::*;
use proptest::strategy::BoxedStrategy;
use serde::{Deserialize, Serialize};
use serde_json::json;
use std::collections::BTreeMap;

#[derive(Clone, Debug, Serialize, Deserialize)]
pub struct TextCase {
    pub base: ParseCase,
    /// raw input texts in addition to the token-level inputs of `base`
    pub texts: Vec<String>,
    /// Some(phase): the grammar gets a terminal `skp` that is listed in the scanner state's `%skip`
    /// list and used by no production; every third gap (starting at `phase`) of the token-level
    /// inputs gets one
    #[serde(default)]
    pub skip: Option<u8>,
}

fn mixed_strategy(tier: Tier, n_inputs: usize, with_texts: bool) -> BoxedStrategy<TextCase> {
    let mk = move |lr: bool| {
        let p = tier_params(tier, if lr { GenParams::lr() } else { GenParams::ll() });
        let texts = if with_texts {
            proptest::collection::vec(
                prop_oneof![
                    // random unicode text
                    proptest::collection::vec(any::<char>(), 0..24).prop_map(|v| v.into_iter().collect::<String>()),
                    // random bytes rendered lossily
                    proptest::collection::vec(any::<u8>(), 0..40).prop_map(|v| String::from_utf8_lossy(&v).into_owned()),
                    // text over the characters the grammars use
                    proptest::collection::vec(proptest::sample::select(vec!['a', 'b', 'c', '(', ')', '+', ' ', '\n', '/', '*', '~', ';', 'x', '{', '}', '\r', '\t', 'e', 'i', 'f']), 0..60).prop_map(|v| v.into_iter().collect::<String>()),
                ],
                4..=4,
            )
            .boxed()
        } else {
            Just(vec![]).boxed()
        };
        (parse_case_strategy(p, lr, n_inputs), texts, any::<u8>()).prop_map(move |(base, texts, b)| TextCase { base, texts, skip: if with_texts && b % 4 == 3 { Some(b / 4 % 3) } else { None } })
    };
    proptest::strategy::Union::new(vec![mk(false).boxed(), mk(true).boxed()]).boxed()
}

pub struct C19;

impl Check for C19 {
    type Case = TextCase;
    fn id(&self) -> &'static str {
        "C19"
    }
    fn rule(&self) -> String {
        "case = random ll(k) or lalr(1) grammar (conflict-resolved LALR tables included; a quarter with a terminal in the scanner state's %skip list that occurs in the inputs' gaps) x inputs: 8 token-level inputs (sentences, mutants with foreign tokens, random strings), a long repetition of a sentence (about 1500 tokens), 4 raw texts (random Unicode, random bytes rendered lossily, random text over the grammar's characters), each parsed with recovery on and off (LL); oracle: the parser returns Ok or Err without panic (debug assertions and overflow checks on); termination is decided by deterministic work counters (tree-builder and semantic-action calls are bounded by 64 x (tokens + 1) x (productions + 1) + 2000; hitting the bound is a violation), with recovery the reported syntax errors are at most 101. Evaluations = parser runs. Non-trivial = rejected input on which recovery reported >= 2 errors, or input of >= 500 tokens; distinct by (grammar, input)".into()
    }
    fn strategy(&self, tier: Tier) -> BoxedStrategy<TextCase> {
        mixed_strategy(tier, 8, true)
    }
    fn cases(&self, tier: Tier) -> u32 {
        tier.pick(18000, 300000)
    }
    fn run(&self, case: &TextCase, st: &mut Stats) -> Verdict {
        let g0;
        let g = match case.skip {
            Some(_) => {
                let mut g = case.base.grammar.clone();
                g.prods.push(Prod { lhs: "Sk".into(), alts: vec![vec![Factor::t("skp")]] });
                g.initial.skip.push("Sk".into());
                g0 = g;
                &g0
            }
            None => &case.base.grammar,
        };
        if case.skip.is_some() {
            st.class("grammar_with_skip_list");
        }
        let opts = Opts { max_k: case.base.max_k, ..Opts::default() };
        let r = match prepare(g, &opts) {
            Prep::Ready(r) => r,
            Prep::Rejected(f) => return Verdict::Skip(format!("grammar rejected at {:?}", f.stage())),
            Prep::LoadErr(e) => return Verdict::Broken(format!("cannot load generated source: {e}")),
        };
        let lr = g.is_lr();
        let resolved = r.built.lr.as_ref().map(|l| l.1.len()).unwrap_or(0);
        let gtext = g.print();
        let comments = !g.initial.line_comments.is_empty();
        let n_prods = r.built.gc.cfg.pr.len();
        let mut inputs: Vec<String> = case.base.inputs.iter().map(|i| i.render(&r.ig.terms, comments)).collect();
        if let Some(phase) = case.skip {
            for text in inputs.iter_mut() {
                let mut out = String::new();
                let mut n = 0u8;
                for ch in text.chars() {
                    out.push(ch);
                    if ch == ' ' {
                        if n % 3 == phase {
                            out.push_str("skp ");
                        }
                        n = n.wrapping_add(1);
                    }
                }
                if phase == 1 {
                    out.push_str(" skp");
                }
                *text = out;
            }
        }
        // a long input: the first sentence repeated (a sentence again for list-like grammars, an
        // erroneous input otherwise)
        if let Some(first) = inputs.first().cloned() {
            let n = first.split_whitespace().count().max(1);
            let reps = 1500 / n + 1;
            inputs.push(std::iter::repeat_n(first.as_str(), reps).collect::<Vec<_>>().join(" "));
        }
        inputs.extend(case.texts.iter().cloned());
        for text in &inputs {
            let n_tokens = match interp::drain(&r.loaded, text, r.max_k().max(1)) {
                Ok(t) => t.len(),
                Err(e) => return Verdict::Fail("C19:token_stream_failure".into(), format!("{}\ninput {:?}\n{gtext}", e, crate::util::trunc(text, 300))),
            };
            let limit = 64 * (n_tokens + 1) * (n_prods + 1) + 2000;
            for recovery in if lr { vec![true] } else { vec![true, false] } {
                let o = RunOpts { recovery, ..RunOpts::default() };
                let run = interp::run(&r.loaded, text, &o, limit);
                st.eval(1);
                let ctx = || format!("{} grammar, recovery={recovery}, {n_tokens} tokens, work limit {limit}\ninput {:?}\n{gtext}", if lr { "LALR(1)" } else { "LL(k)" }, crate::util::trunc(text, 400));
                match &run.outcome {
                    Outcome::Ok => st.class("ok"),
                    Outcome::Err(kind, n) => {
                        st.class(&format!("err/{}", kind.split('(').next().unwrap_or("")));
                        if kind.starts_with("InternalError") || kind.starts_with("LexerInternalError") || kind == "DataError" {
                            return Verdict::Fail("C19:internal_error_reported".into(), format!("parser reports {kind}\n{}", ctx()));
                        }
                        if *n > 101 {
                            return Verdict::Fail("C19:too_many_errors_reported".into(), format!("{n} syntax errors\n{}", ctx()));
                        }
                        if *n >= 2 {
                            st.class("recovery_with_several_errors");
                            st.nontrivial(hash_of(&(&gtext, text)));
                        }
                    }
                    Outcome::Panic(p) => {
                        return Verdict::Fail(format!("C19:parser_panics_{}", if lr { "lr" } else { "ll" }), format!("{p}\n{}", ctx()));
                    }
                    Outcome::WorkLimit => {
                        let cyclic = crate::ffref::Bnf::from_cfg(&r.built.gc0.cfg).is_cyclic();
                        let sig = if resolved > 0 && cyclic {
                            "C19:conflict_resolved_table_of_cyclic_grammar_loops"
                        } else if resolved > 0 {
                            "C19:conflict_resolved_lr_table_loops"
                        } else {
                            "C19:unbounded_work"
                        };
                        return Verdict::Fail(sig.into(), format!("work limit exceeded ({} builder calls, {} action calls)\n{}", run.builder_calls, run.action_calls, ctx()));
                    }
                }
                if n_tokens >= 500 {
                    st.class("long_input");
                    st.nontrivial(hash_of(&(&gtext, text.len(), recovery)));
                }
            }
            st.sample(|| json!({"grammar": gtext, "input": crate::util::trunc(text, 120)}));
        }
        Verdict::Pass
    }
}

// ---------------------------------------------------------------------------------------------
pub struct C20;

impl Check for C20 {
    type Case = TextCase;
    fn id(&self) -> &'static str {
        "C20"
    }
    fn rule(&self) -> String {
        "case = random ll(k) or conflict-free lalr(1) grammar x 8 token-level inputs (sentences, mutants, random) x option sets {tree trimming on/off, recovery on/off (LL), depth limit in {none, 1, 2, 3, 5, 10, 100, 1000000}}; oracle relative to the run without options: trimming and disabled recovery give the same verdict and the identical semantic-action trace (production numbers and children); a depth limit gives either the identical outcome and trace or the MaxParsingDepthExceeded error, never a panic, identically with and without trimming, monotonically (once a limit passes every larger one is identical to the baseline, the limit 1000000 always is). Evaluations = parser runs. Non-trivial = input for which some limit triggers and a larger one does not; distinct by (grammar, input)".into()
    }
    fn strategy(&self, tier: Tier) -> BoxedStrategy<TextCase> {
        mixed_strategy(tier, 8, false)
    }
    fn cases(&self, tier: Tier) -> u32 {
        tier.pick(15000, 250000)
    }
    fn run(&self, case: &TextCase, st: &mut Stats) -> Verdict {
        let g = &case.base.grammar;
        let opts = Opts { max_k: case.base.max_k, ..Opts::default() };
        let r = match prepare(g, &opts) {
            Prep::Ready(r) => r,
            Prep::Rejected(f) => return Verdict::Skip(format!("grammar rejected at {:?}", f.stage())),
            Prep::LoadErr(e) => return Verdict::Broken(format!("cannot load generated source: {e}")),
        };
        if r.built.lr.as_ref().is_some_and(|l| !l.1.is_empty()) {
            return Verdict::Skip("resolved conflicts (C04's subject)".into());
        }
        let lr = g.is_lr();
        let gtext = g.print();
        let comments = !g.initial.line_comments.is_empty();
        const WORK: usize = 300_000;
        for inp in &case.base.inputs {
            let text = inp.render(&r.ig.terms, comments);
            let base = interp::run(&r.loaded, &text, &RunOpts::default(), WORK);
            st.eval(1);
            let ctx = |o: &RunOpts| format!("{} grammar, options {o:?}\ninput {text:?}\n{gtext}", if lr { "LALR(1)" } else { "LL(k)" });
            if base.outcome.is_panic() || base.outcome == Outcome::WorkLimit {
                return Verdict::Skip("baseline run panics or exceeds the work limit (C19's subject)".into());
            }
            let class_of = |o: &Outcome| match o {
                Outcome::Ok => "Ok".to_string(),
                Outcome::Err(k, _) => k.clone(),
                Outcome::Panic(_) => "Panic".into(),
                Outcome::WorkLimit => "WorkLimit".into(),
            };
            let mut variants = vec![RunOpts { trim: true, ..RunOpts::default() }];
            if !lr {
                variants.push(RunOpts { recovery: false, ..RunOpts::default() });
                variants.push(RunOpts { recovery: false, trim: true, ..RunOpts::default() });
            }
            for o in &variants {
                let run = interp::run(&r.loaded, &text, o, WORK);
                st.eval(1);
                if let Outcome::Panic(p) = &run.outcome {
                    return Verdict::Fail("C20:option_causes_panic".into(), format!("{p}\n{}", ctx(o)));
                }
                if run.outcome.is_ok() != base.outcome.is_ok() {
                    return Verdict::Fail("C20:option_changes_verdict".into(), format!("baseline {:?}, with options {:?}\n{}", base.outcome, run.outcome, ctx(o)));
                }
                if run.trace.actions != base.trace.actions {
                    let sig = if o.trim { "C20:trimming_changes_actions" } else { "C20:disabling_recovery_changes_actions" };
                    return Verdict::Fail(sig.into(), format!("baseline actions {:?}\nwith options  {:?}\n{}", base.trace.actions.iter().map(|a| a.0).collect::<Vec<_>>(), run.trace.actions.iter().map(|a| a.0).collect::<Vec<_>>(), ctx(o)));
                }
            }
            let mut passed_at: Option<usize> = None;
            let mut triggered = false;
            for limit in [1usize, 2, 3, 5, 10, 100, 1_000_000] {
                let o = RunOpts { max_depth: Some(limit), ..RunOpts::default() };
                let run = interp::run(&r.loaded, &text, &o, WORK);
                st.eval(1);
                if let Outcome::Panic(p) = &run.outcome {
                    return Verdict::Fail("C20:depth_limit_causes_panic".into(), format!("{p}\n{}", ctx(&o)));
                }
                // option combination: the same limit with tree trimming must behave identically
                let ot = RunOpts { max_depth: Some(limit), trim: true, ..RunOpts::default() };
                let run_t = interp::run(&r.loaded, &text, &ot, WORK);
                st.eval(1);
                if let Outcome::Panic(p) = &run_t.outcome {
                    return Verdict::Fail("C20:depth_limit_causes_panic".into(), format!("{p}\n{}", ctx(&ot)));
                }
                if class_of(&run_t.outcome) != class_of(&run.outcome) || run_t.trace.actions != run.trace.actions {
                    return Verdict::Fail(
                        "C20:trimming_changes_outcome_under_a_depth_limit".into(),
                        format!("limit {limit}: untrimmed {:?}, trimmed {:?}\nactions untrimmed {:?}\nactions trimmed   {:?}\n{}", run.outcome, run_t.outcome, run.trace.actions, run_t.trace.actions, ctx(&ot)),
                    );
                }
                let exceeded = matches!(&run.outcome, Outcome::Err(k, _) if k == "MaxParsingDepthExceeded");
                if exceeded {
                    triggered = true;
                    if let Some(p) = passed_at {
                        return Verdict::Fail("C20:depth_limit_not_monotone".into(), format!("limit {p} passed but limit {limit} is exceeded\n{}", ctx(&o)));
                    }
                    if limit == 1_000_000 {
                        return Verdict::Fail("C20:huge_depth_limit_exceeded".into(), ctx(&o));
                    }
                    // the actions performed so far must be a prefix of the baseline's
                    if !base.trace.actions.starts_with(&run.trace.actions) {
                        return Verdict::Fail("C20:depth_limited_run_performs_other_actions".into(), ctx(&o));
                    }
                } else {
                    if class_of(&run.outcome) != class_of(&base.outcome) || run.trace.actions != base.trace.actions {
                        return Verdict::Fail(
                            "C20:unreached_depth_limit_changes_outcome".into(),
                            format!("baseline {:?}, with limit {limit}: {:?}\n{}", base.outcome, run.outcome, ctx(&o)),
                        );
                    }
                    passed_at.get_or_insert(limit);
                }
            }
            if triggered && passed_at.is_some() {
                st.class("limit_triggers_and_larger_passes");
                st.nontrivial(hash_of(&(&gtext, &text)));
            }
            st.class(if base.outcome.is_ok() { "accepted" } else { "rejected" });
            st.sample(|| json!({"grammar": gtext, "input": text, "first_passing_limit": passed_at}));
        }
        Verdict::Pass
    }
}

// ---------------------------------------------------------------------------------------------
pub struct C21;

impl Check for C21 {
    type Case = TextCase;
    fn id(&self) -> &'static str {
        "C21"
    }
    fn rule(&self) -> String {
        "case = random accepted ll(k) or lalr(1) grammar (hostile names, comments); three-way comparison analysis result <-> export model <-> tables parsed from the generated source: lookahead automata (prod0, transitions, k) literally equal between export and source and language-equal to the analysis tries (C07), productions (lhs, right-hand side symbol kinds and indices) equal to the transformed Cfg, LR actions and gotos per state equal as maps to the analysis table, non-terminal and terminal name tables, skip lists, start symbol index, scanner modes (patterns, lookaheads, order, transitions) equal to the export scanner section and the GrammarConfig; every index within its table; MAX_K = largest automaton k; the trim / recovery / depth options requested appear in the generated parse function. Evaluations = grammars compared. Non-trivial = grammar with >= 10 productions or an LR table with >= 8 states; distinct by grammar text".into()
    }
    fn strategy(&self, tier: Tier) -> BoxedStrategy<TextCase> {
        // plain generated grammars plus fully annotated ones (quoting styles, lookaheads, scanner
        // states, %on / %skip) with few terminals so that equal texts with different lookaheads meet
        let ann = |lr: bool| {
            let mut p = if lr { GenParams::lr() } else { GenParams::ll() };
            p.max_t = 3;
            super::gen_props::annotated(p, lr).prop_map(|c| TextCase { base: ParseCase { grammar: c.grammar, max_k: 3, inputs: vec![] }, texts: vec![], skip: None })
        };
        proptest::strategy::Union::new(vec![mixed_strategy(tier, 0, false), ann(false).boxed(), ann(true).boxed()]).boxed()
    }
    fn cases(&self, tier: Tier) -> u32 {
        tier.pick(30000, 400000)
    }
    fn run(&self, case: &TextCase, st: &mut Stats) -> Verdict {
        let g = &case.base.grammar;
        // vary the generation options deterministically
        let h = hash_of(&g.print());
        let opts = Opts { max_k: case.base.max_k, trim: h & 1 == 1, recovery_disabled: h & 2 == 2, max_depth: if h & 4 == 4 { Some(7 + (h % 50) as usize) } else { None }, ..Opts::default() };
        let gtext = g.print();
        let built = match pipeline::build(&gtext, &opts) {
            Ok(b) => b,
            Err(f) => return Verdict::Skip(format!("grammar rejected at {:?}", f.stage())),
        };
        let t = match crate::loader::read_tables(&built.parser_src) {
            Ok(t) => t,
            Err(e) => return Verdict::Fail("C21:generated_source_unreadable".into(), format!("{e}\n{gtext}")),
        };
        let ex = match pipeline::export_model(&built) {
            Ok(e) => e,
            Err(f) => return Verdict::Fail("C21:export_fails".into(), format!("{}\n{gtext}", f.msg())),
        };
        st.eval(1);
        let cfg = &built.gc.cfg;
        macro_rules! fail {
            ($sig:literal, $($arg:tt)*) => { return Verdict::Fail(format!("C21:{}", $sig), format!("{}\n{gtext}", format!($($arg)*))) };
        }
        // options
        if t.trim != opts.trim || (built.dfas.is_some() && t.recovery_disabled != opts.recovery_disabled) || t.max_depth != opts.max_depth {
            fail!("options_not_rendered", "requested {opts:?}, generated trim={} recovery_disabled={} max_depth={:?}", t.trim, t.recovery_disabled, t.max_depth);
        }
        // names
        let nts: Vec<String> = cfg.get_non_terminal_set().into_iter().collect();
        if t.non_terminals != nts {
            fail!("non_terminal_names_differ", "source {:?}, cfg {:?}", t.non_terminals, nts);
        }
        let ex_nts: Vec<String> = ex["non_terminal_names"].as_array().map(|a| a.iter().map(|x| x.as_str().unwrap_or("").to_string()).collect()).unwrap_or_default();
        if ex_nts != nts {
            fail!("export_non_terminal_names_differ", "export {ex_nts:?}, cfg {nts:?}");
        }
        if t.non_terminals.get(t.start_index).map(|s| s.as_str()) != Some(cfg.get_start_symbol()) || ex["start_symbol_index"].as_u64() != Some(t.start_index as u64) {
            fail!("start_symbol_index_differs", "source index {} export {:?} start symbol {}", t.start_index, ex["start_symbol_index"], cfg.get_start_symbol());
        }
        let names = parol::generators::generate_terminal_names(&built.gc);
        if t.terminal_names != names {
            fail!("terminal_names_differ", "source {:?}, analysis {names:?}", t.terminal_names);
        }
        let n_term = t.terminal_names.len();
        // skip lists
        let want_skip: Vec<Vec<u16>> = built.gc.scanner_configurations.iter().map(|s| s.skip_tokens.clone()).collect();
        if t.skip_by_state != want_skip {
            fail!("skip_lists_differ", "source {:?}, configuration {want_skip:?}", t.skip_by_state);
        }
        // scanner modes vs export scanner section
        let ex_terms = ex["scanner"]["terminals"].as_array().cloned().unwrap_or_default();
        let ex_states = ex["scanner"]["scanner_states"].as_array().cloned().unwrap_or_default();
        if t.modes.len() != built.gc.scanner_configurations.len() || ex_states.len() != t.modes.len() {
            fail!("scanner_mode_count", "{} modes in source, {} configurations, {} in export", t.modes.len(), built.gc.scanner_configurations.len(), ex_states.len());
        }
        for (mi, m) in t.modes.iter().enumerate() {
            if m.name != built.gc.scanner_configurations[mi].scanner_name {
                fail!("scanner_mode_name", "mode {mi}: {} vs {}", m.name, built.gc.scanner_configurations[mi].scanner_name);
            }
            let user: Vec<(String, usize, Option<(bool, String)>)> = m.tokens.iter().filter(|(_, i, _)| *i >= 5 && *i < n_term - 1).cloned().collect();
            let want: Vec<(String, usize, Option<(bool, String)>)> = ex_terms
                .iter()
                .filter(|x| x["scanner_states"].as_array().is_some_and(|s| s.iter().any(|v| v.as_u64() == Some(mi as u64))))
                .map(|x| {
                    (
                        x["expanded_pattern"].as_str().unwrap_or("").to_string(),
                        x["index"].as_u64().unwrap_or(0) as usize,
                        x["lookahead"].as_object().map(|l| (l["is_positive"].as_bool().unwrap_or(false), l["expanded_pattern"].as_str().unwrap_or("").to_string())),
                    )
                })
                .collect();
            if user != want {
                fail!("scanner_mode_terminals_differ", "mode {}: source {user:?}, export {want:?}", m.name);
            }
            for (_, i, _) in &m.tokens {
                if *i == 0 || *i >= n_term {
                    fail!("scanner_token_index_out_of_range", "mode {} token index {i}", m.name);
                }
            }
            let tr: Vec<(usize, String, Option<String>)> = m.transitions.clone();
            let want_tr: Vec<(usize, String, Option<String>)> = ex_states[mi]["transitions"]
                .as_array()
                .map(|a| {
                    a.iter()
                        .map(|x| {
                            let kind = x["kind"].as_str().unwrap_or("").to_lowercase();
                            (x["terminal_index"].as_u64().unwrap_or(0) as usize, if kind.contains("push") { "push".into() } else if kind.contains("pop") { "pop".into() } else { "enter".to_string() }, x["target_scanner_name"].as_str().map(|s| s.to_string()))
                        })
                        .collect()
                })
                .unwrap_or_default();
            if tr != want_tr {
                fail!("scanner_transitions_differ", "mode {}: source {tr:?}, export {want_tr:?}", m.name);
            }
        }
        // productions
        let ex_prods = ex["productions"].as_array().cloned().unwrap_or_default();
        if ex_prods.len() != cfg.pr.len() {
            fail!("export_production_count", "{} vs {}", ex_prods.len(), cfg.pr.len());
        }
        use parol::grammar::cfg::TerminalIndexFn;
        let ti = cfg.get_terminal_index_function();
        for (i, p) in cfg.pr.iter().enumerate() {
            let lhs = nts.iter().position(|n| n == p.get_n_str()).unwrap();
            let want_rhs: Vec<Sym> = p
                .get_r()
                .iter()
                .map(|s| match s {
                    parol::Symbol::N(n, ..) => Sym::N(nts.iter().position(|x| x == n).unwrap_or(usize::MAX)),
                    parol::Symbol::T(parol::Terminal::Trm(tx, k, _, _, _, _, l)) => Sym::T(ti.terminal_index(tx, *k, l)),
                    _ => Sym::T(0),
                })
                .collect();
            let e = &ex_prods[i];
            let ex_rhs: Vec<Sym> = e["rhs"]
                .as_array()
                .map(|a| {
                    a.iter()
                        .map(|s| {
                            if let Some(n) = s.get("NonTerminal") {
                                Sym::N(n.as_u64().unwrap_or(u64::MAX) as usize)
                            } else {
                                Sym::T(s["Terminal"]["index"].as_u64().unwrap_or(u64::MAX) as u16)
                            }
                        })
                        .collect()
                })
                .unwrap_or_default();
            if e["lhs_index"].as_u64() != Some(lhs as u64) || ex_rhs != want_rhs || e["production_index"].as_u64() != Some(i as u64) {
                fail!("export_production_differs", "production {i} `{p}`: export lhs {:?} rhs {ex_rhs:?}, expected lhs {lhs} rhs {want_rhs:?}", e["lhs_index"]);
            }
            if let Some((_, prods)) = &t.ll {
                let sp = &prods[i];
                if prods.len() != cfg.pr.len() || sp.lhs != lhs || sp.rhs != want_rhs {
                    fail!("source_production_differs", "production {i} `{p}`: source lhs {} rhs {:?}, expected lhs {lhs} rhs {want_rhs:?}", sp.lhs, sp.rhs);
                }
            }
            if let Some((_, _, prods)) = &t.lr {
                let sp = &prods[i];
                if prods.len() != cfg.pr.len() || sp.lhs != lhs || sp.len != want_rhs.len() {
                    fail!("source_lr_production_differs", "production {i} `{p}`: source lhs {} len {}, expected lhs {lhs} len {}", sp.lhs, sp.len, want_rhs.len());
                }
            }
        }
        let mut big = cfg.pr.len() >= 10;
        // automata: literal equality export <-> source, MAX_K
        if let Some((dfas, _)) = &t.ll {
            let ex_dfas = ex["lookahead_automata"].as_array().cloned().unwrap_or_default();
            if ex_dfas.len() != dfas.len() || dfas.len() != nts.len() {
                fail!("automaton_count", "{} in source, {} in export, {} non-terminals", dfas.len(), ex_dfas.len(), nts.len());
            }
            let mut max_k = 0;
            for (i, d) in dfas.iter().enumerate() {
                let e = &ex_dfas[i];
                let etr: Vec<(usize, u16, usize, i32)> = e["transitions"]
                    .as_array()
                    .map(|a| a.iter().map(|x| (x["from_state"].as_u64().unwrap_or(0) as usize, x["term"].as_u64().unwrap_or(0) as u16, x["to_state"].as_u64().unwrap_or(0) as usize, x["prod_num"].as_i64().unwrap_or(0) as i32)).collect())
                    .unwrap_or_default();
                if e["non_terminal_index"].as_u64() != Some(i as u64) || e["non_terminal_name"].as_str() != Some(nts[i].as_str()) || e["prod0"].as_i64() != Some(d.prod0 as i64) || e["k"].as_u64() != Some(d.k as u64) || etr != d.transitions {
                    fail!("automaton_differs_between_export_and_source", "non-terminal {}: source {d:?}, export {e}", nts[i]);
                }
                let analysis_k = built.dfas.as_ref().unwrap().get(&nts[i]).map(|x| x.k);
                if analysis_k != Some(d.k) {
                    fail!("automaton_k_differs_from_analysis", "non-terminal {}: source k {}, analysis {analysis_k:?}", nts[i], d.k);
                }
                for tr in &d.transitions {
                    if tr.1 as usize >= n_term || tr.3 >= cfg.pr.len() as i32 || (tr.3 >= 0 && nts[cfg_lhs(cfg, tr.3 as usize, &nts)] != nts[i]) {
                        fail!("automaton_index_out_of_range", "non-terminal {}: transition {tr:?}", nts[i]);
                    }
                }
                max_k = max_k.max(d.k);
            }
            if t.max_k != Some(max_k) {
                fail!("max_k_differs", "MAX_K {:?}, largest automaton k {max_k}", t.max_k);
            }
        }
        // LR table: source <-> analysis <-> export
        if let Some((actions, states, _)) = &t.lr {
            let table = &built.lr.as_ref().unwrap().0;
            if states.len() != table.states.len() {
                fail!("lr_state_count", "{} in source, {} in analysis", states.len(), table.states.len());
            }
            big |= states.len() >= 8;
            let ex_tab = &ex["lalr_parse_table"];
            let ex_actions = ex_tab["actions"].as_array().cloned().unwrap_or_default();
            let ex_states = ex_tab["states"].as_array().cloned().unwrap_or_default();
            let conv = |a: &parol::LRAction| match a {
                parol::LRAction::Shift(s) => LrAct::Shift(*s),
                parol::LRAction::Reduce(n, p) => LrAct::Reduce(*n, *p),
                parol::LRAction::Accept => LrAct::Accept,
            };
            for (si, s) in states.iter().enumerate() {
                let mut got: BTreeMap<u16, LrAct> = BTreeMap::new();
                for (term, ai) in &s.actions {
                    let Some(a) = actions.get(*ai) else { fail!("lr_action_index_out_of_range", "state {si}: action index {ai}") };
                    if got.insert(*term, a.clone()).is_some() {
                        fail!("lr_duplicate_action", "state {si} terminal {term}");
                    }
                    match a {
                        LrAct::Shift(x) if *x >= states.len() => fail!("lr_shift_target_out_of_range", "state {si}: {a:?}"),
                        LrAct::Reduce(n, p) if *p >= cfg.pr.len() || *n != cfg_lhs(cfg, *p, &nts) => fail!("lr_reduce_inconsistent", "state {si}: {a:?}"),
                        _ => {}
                    }
                    if *term as usize >= n_term {
                        fail!("lr_terminal_out_of_range", "state {si}: terminal {term}");
                    }
                }
                let want: BTreeMap<u16, LrAct> = table.states[si].actions.iter().map(|(t, a)| (*t, conv(a))).collect();
                if got != want {
                    fail!("lr_actions_differ_from_analysis", "state {si}: source {got:?}, analysis {want:?}");
                }
                let gotos: BTreeMap<usize, usize> = s.gotos.iter().copied().collect();
                let want_g: BTreeMap<usize, usize> = table.states[si].gotos.iter().map(|(a, b)| (*a, *b)).collect();
                if gotos != want_g || gotos.len() != s.gotos.len() {
                    fail!("lr_gotos_differ_from_analysis", "state {si}: source {:?}, analysis {want_g:?}", s.gotos);
                }
                // export
                let es = &ex_states[si];
                let mut eg: BTreeMap<u16, LrAct> = BTreeMap::new();
                for pair in es["actions"].as_array().cloned().unwrap_or_default() {
                    let term = pair[0].as_u64().unwrap_or(0) as u16;
                    let ai = pair[1].as_u64().unwrap_or(u64::MAX) as usize;
                    let Some(a) = ex_actions.get(ai) else { fail!("export_lr_action_index_out_of_range", "state {si}: {ai}") };
                    let act = if let Some(s) = a.get("Shift") {
                        LrAct::Shift(s.as_u64().unwrap_or(0) as usize)
                    } else if let Some(r) = a.get("Reduce") {
                        if let Some(arr) = r.as_array() {
                            LrAct::Reduce(arr[0].as_u64().unwrap_or(0) as usize, arr[1].as_u64().unwrap_or(0) as usize)
                        } else {
                            LrAct::Reduce(r["non_terminal_index"].as_u64().unwrap_or(0) as usize, r["production_index"].as_u64().unwrap_or(0) as usize)
                        }
                    } else {
                        LrAct::Accept
                    };
                    eg.insert(term, act);
                }
                if eg != want {
                    fail!("export_lr_actions_differ_from_analysis", "state {si}: export {eg:?}, analysis {want:?}");
                }
                let egoto: BTreeMap<usize, usize> = es["gotos"].as_array().map(|a| a.iter().map(|p| (p[0].as_u64().unwrap_or(0) as usize, p[1].as_u64().unwrap_or(0) as usize)).collect()).unwrap_or_default();
                if egoto != want_g {
                    fail!("export_lr_gotos_differ_from_analysis", "state {si}: export {egoto:?}, analysis {want_g:?}");
                }
            }
        }
        if big {
            st.nontrivial(hash_of(&gtext));
        }
        st.class(if t.lr.is_some() { "LR" } else { "LL" });
        st.sample(|| json!({"grammar": gtext, "options": format!("{opts:?}")}));
        let _ = Tape { data: &[], pos: 0 };
        Verdict::Pass
    }
}

fn cfg_lhs(cfg: &parol::Cfg, p: usize, nts: &[String]) -> usize {
    cfg.pr.get(p).and_then(|pr| nts.iter().position(|n| n == pr.get_n_str())).unwrap_or(usize::MAX)
}

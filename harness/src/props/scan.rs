//! Scanner-level cases (C13-C16): terminal sets from regex ASTs, scanner states, transitions,
//! comment declarations; conversion to PAR text and to the reference lexer's tables.

use crate::ast::*;
use crate::chart::Tape;
use crate::engine::tape;
use crate::rx::*;
use proptest::prelude::*;
use proptest::strategy::BoxedStrategy;
use serde::{Deserialize, Serialize};

#[derive(Clone, Debug, Serialize, Deserialize)]
pub struct STerm {
    pub rx: Rx,
    pub quote: Quote,
    pub lookahead: Option<(bool, Rx, Quote)>,
    /// scanner states (indices) the terminal belongs to; empty = INITIAL only
    pub states: Vec<usize>,
    /// state lists of further occurrences of the same terminal (each: empty = INITIAL only);
    /// the terminal belongs to the union of all its occurrences' states
    #[serde(default)]
    pub extra_states: Vec<Vec<usize>>,
}

impl STerm {
    pub fn in_mode(&self, mi: usize) -> bool {
        let one = |s: &Vec<usize>| if s.is_empty() { mi == 0 } else { s.contains(&mi) };
        one(&self.states) || self.extra_states.iter().any(one)
    }
}

#[derive(Clone, Debug, Serialize, Deserialize, PartialEq)]
pub enum SSw {
    Enter(usize),
    Push(usize),
    Pop,
}

#[derive(Clone, Debug, Default, Serialize, Deserialize)]
pub struct SMode {
    pub name: String,
    pub auto_nl_off: bool,
    pub auto_ws_off: bool,
    pub allow_unmatched: bool,
    pub line_comments: Vec<String>,
    pub block_comments: Vec<(String, String)>,
    pub on: Vec<(usize, SSw)>,
    pub skip: Vec<usize>,
}

#[derive(Clone, Debug, Serialize, Deserialize)]
pub struct ScanCase {
    pub terms: Vec<STerm>,
    pub modes: Vec<SMode>,
    pub lr: bool,
    pub inputs: Vec<String>,
    /// index of the marker terminal that introduces the production with the further occurrences
    #[serde(default)]
    pub marker: Option<usize>,
}

fn lit_of(rx: &Rx, q: Quote) -> Lit {
    match q {
        Quote::Raw => {
            // raw: the literal text itself
            let mut s = String::new();
            fn flat(r: &Rx, s: &mut String) {
                match r {
                    Rx::Lit(c) => s.push(*c),
                    Rx::Seq(v) => v.iter().for_each(|x| flat(x, s)),
                    _ => {}
                }
            }
            flat(rx, &mut s);
            Lit { text: s, quote: Quote::Raw }
        }
        q => Lit { text: rx.print(), quote: q },
    }
}

pub fn is_literal(rx: &Rx) -> bool {
    match rx {
        Rx::Lit(c) => *c != '\'' && *c != '\\',
        Rx::Seq(v) => v.iter().all(is_literal),
        _ => false,
    }
}

impl ScanCase {
    pub fn term_name(i: usize) -> String {
        format!("T{i}")
    }

    pub fn grammar(&self) -> Grammar {
        let state_name = |i: usize| self.modes[i].name.clone();
        let mut prods = vec![];
        let mut alts: Alts = (0..self.terms.len()).filter(|i| Some(*i) != self.marker).map(|i| vec![Factor::n(&Self::term_name(i))]).collect();
        if let Some(m) = self.marker {
            alts.push(vec![Factor::n(&Self::term_name(m)), Factor::n("Extra")]);
        }
        prods.push(Prod { lhs: "Start".into(), alts: vec![vec![Factor::Rep(alts)]] });
        for (i, t) in self.terms.iter().enumerate() {
            let term = Term {
                lit: lit_of(&t.rx, t.quote),
                lookahead: t.lookahead.as_ref().map(|(p, r, q)| (*p, lit_of(r, *q))),
                sample: String::new(),
            };
            let states = t.states.iter().map(|s| state_name(*s)).collect();
            prods.push(Prod { lhs: Self::term_name(i), alts: vec![vec![Factor::T { term, states, ann: Ann::default() }]] });
        }
        if self.marker.is_some() {
            // further occurrences of terminals, with their own state lists, behind the marker
            let mut alts: Alts = vec![];
            for t in &self.terms {
                for st in &t.extra_states {
                    let term = Term {
                        lit: lit_of(&t.rx, t.quote),
                        lookahead: t.lookahead.as_ref().map(|(p, r, q)| (*p, lit_of(r, *q))),
                        sample: String::new(),
                    };
                    alts.push(vec![Factor::T { term, states: st.iter().map(|s| state_name(*s)).collect(), ann: Ann::default() }]);
                }
            }
            if alts.len() == 1 {
                // a production consisting of one terminal would be a second "token alias"
                alts = vec![vec![Factor::Group(alts)]];
            }
            prods.push(Prod { lhs: "Extra".into(), alts });
        }
        let mut g = Grammar::new("Start", prods);
        if self.lr {
            g.gtype = Some(GType::LALR);
        }
        let conv = |m: &SMode| ScannerDecl {
            name: m.name.clone(),
            line_comments: m.line_comments.iter().map(|s| Lit::raw(s)).collect(),
            block_comments: m.block_comments.iter().map(|(a, b)| (Lit::raw(a), Lit::raw(b))).collect(),
            auto_newline_off: m.auto_nl_off,
            auto_ws_off: m.auto_ws_off,
            allow_unmatched: m.allow_unmatched,
            skip: m.skip.iter().map(|i| Self::term_name(*i)).collect(),
            on: m
                .on
                .iter()
                .map(|(t, s)| {
                    (
                        vec![Self::term_name(*t)],
                        match s {
                            SSw::Enter(n) => Switch::Enter(state_name(*n)),
                            SSw::Push(n) => Switch::Push(state_name(*n)),
                            SSw::Pop => Switch::Pop,
                        },
                    )
                })
                .collect(),
        };
        g.initial = conv(&self.modes[0]);
        g.scanners = self.modes[1..].iter().map(conv).collect();
        g
    }

    /// the reference lexer's tables; terminal i has token type 5 + i
    pub fn ref_modes(&self) -> Vec<RefMode> {
        self.modes
            .iter()
            .enumerate()
            .map(|(mi, m)| RefMode {
                auto_nl: !m.auto_nl_off,
                auto_ws: !m.auto_ws_off,
                line_comments: m.line_comments.clone(),
                block_comments: m.block_comments.clone(),
                allow_unmatched: m.allow_unmatched,
                terms: self
                    .terms
                    .iter()
                    .enumerate()
                    .filter(|(_, t)| t.in_mode(mi))
                    .map(|(i, t)| RefTerm { ty: 5 + i as u16, rx: t.rx.clone(), lookahead: t.lookahead.as_ref().map(|(p, r, _)| (*p, r.clone())) })
                    .collect(),
                transitions: m
                    .on
                    .iter()
                    .map(|(t, s)| {
                        (
                            5 + *t as u16,
                            match s {
                                SSw::Enter(n) => Sw::Enter(*n),
                                SSw::Push(n) => Sw::Push(*n),
                                SSw::Pop => Sw::Pop,
                            },
                        )
                    })
                    .collect(),
            })
            .collect()
    }

    pub fn error_ty(&self) -> u16 {
        5 + self.terms.len() as u16
    }
}

pub const ALPHABET: &[char] = &['a', 'b', 'c', '0', '+', '.'];

#[derive(Clone, Debug)]
pub struct ScanParams {
    pub max_terms: usize,
    pub max_modes: usize,
    pub lookaheads: bool,
    pub comments: bool,
    pub flags: bool,
    pub lr: bool,
    /// further occurrences of terminals with other scanner state lists
    pub multi_occ: bool,
}

impl Default for ScanParams {
    fn default() -> Self {
        ScanParams { max_terms: 5, max_modes: 3, lookaheads: true, comments: true, flags: true, lr: false, multi_occ: false }
    }
}

fn quote_for(t: &mut Tape, rx: &Rx) -> Quote {
    if is_literal(rx) && t.next(2) == 0 {
        Quote::Raw
    } else if t.next(2) == 0 {
        Quote::Str
    } else {
        Quote::Rx
    }
}

pub const COMMENT_STYLES: &[(&str, &str, &str)] = &[("//", "/*", "*/"), ("#", "(*", "*)"), ("--", "{-", "-}"), (";", "<!", "!>")];

pub fn gen_scan_case(gt: &[u16], its: &[Vec<u16>], p: &ScanParams) -> ScanCase {
    let mut t = Tape { data: gt, pos: 0 };
    let n_terms = 1 + t.next(p.max_terms);
    let n_modes = 1 + t.next(p.max_modes);
    let mut terms: Vec<STerm> = vec![];
    for _ in 0..n_terms {
        let rx = if t.next(3) == 0 {
            // literal keyword / operator, often a prefix or extension of an earlier literal
            let len = 1 + t.next(3);
            Rx::Seq((0..len).map(|_| Rx::Lit(ALPHABET[t.next(ALPHABET.len())])).collect())
        } else {
            gen_rx(&mut t, ALPHABET, 2)
        };
        if terms.iter().any(|x| x.rx == rx) {
            continue;
        }
        let quote = quote_for(&mut t, &rx);
        let lookahead = if p.lookaheads && t.next(5) == 0 {
            let la = gen_rx(&mut t, ALPHABET, 1);
            let q = quote_for(&mut t, &la);
            Some((t.next(2) == 0, la, q))
        } else {
            None
        };
        let states = if n_modes > 1 && t.next(2) == 0 {
            let mut s: Vec<usize> = (0..n_modes).filter(|_| t.next(2) == 0).collect();
            if s.is_empty() {
                s.push(t.next(n_modes));
            }
            s
        } else {
            vec![]
        };
        terms.push(STerm { rx, quote, lookahead, states, extra_states: vec![] });
    }
    // parol rejects scanner states without terminals: give every state at least one
    for mi in 1..n_modes {
        if !terms.iter().any(|x| x.states.contains(&mi)) {
            let i = t.next(terms.len());
            if terms[i].states.is_empty() {
                terms[i].states.push(0);
            }
            terms[i].states.push(mi);
            terms[i].states.sort();
        }
    }
    // further occurrences of one or two terminals with another state list, introduced by a
    // marker terminal that belongs to every state
    let mut marker = None;
    if p.multi_occ && n_modes > 1 && t.next(3) == 2 {
        let mrx = Rx::Seq("c0c0".chars().map(Rx::Lit).collect());
        if !terms.iter().any(|x| x.rx == mrx) {
            for _ in 0..1 + t.next(2) {
                let i = t.next(terms.len());
                let mut st: Vec<usize> = (0..n_modes).filter(|_| t.next(2) == 0).collect();
                if t.next(3) == 0 {
                    st.clear();
                }
                if terms[i].extra_states.is_empty() {
                    terms[i].extra_states.push(st);
                }
            }
            terms.push(STerm { rx: mrx, quote: Quote::Raw, lookahead: None, states: (0..n_modes).collect(), extra_states: vec![] });
            marker = Some(terms.len() - 1);
        }
    }
    let mut modes: Vec<SMode> = vec![];
    for mi in 0..n_modes {
        let mut m = SMode { name: if mi == 0 { "INITIAL".into() } else { format!("Mode{mi}") }, ..Default::default() };
        if p.flags {
            m.auto_nl_off = t.next(5) == 0;
            m.auto_ws_off = t.next(5) == 0;
            m.allow_unmatched = t.next(5) == 0;
        }
        if p.comments && t.next(2) == 0 {
            let (l, bs, be) = COMMENT_STYLES[t.next(COMMENT_STYLES.len())];
            if t.next(3) != 0 {
                m.line_comments.push(l.to_string());
            }
            if t.next(3) != 0 {
                m.block_comments.push((bs.to_string(), be.to_string()));
            }
        }
        if n_modes > 1 {
            for _ in 0..t.next(3) {
                // a transition on a terminal that belongs to this mode
                let cands: Vec<usize> = (0..terms.len()).filter(|i| terms[*i].in_mode(mi)).collect();
                if cands.is_empty() {
                    break;
                }
                let tok = cands[t.next(cands.len())];
                if m.on.iter().any(|(x, _)| *x == tok) {
                    continue;
                }
                let sw = match t.next(3) {
                    0 => SSw::Enter(t.next(n_modes)),
                    1 => SSw::Push(t.next(n_modes)),
                    _ => SSw::Pop,
                };
                m.on.push((tok, sw));
            }
        }
        modes.push(m);
    }
    let case0 = ScanCase { terms, modes, lr: p.lr, inputs: vec![], marker };
    let inputs = its.iter().map(|tp| gen_input(&case0, tp)).collect();
    ScanCase { inputs, ..case0 }
}

pub fn gen_input(c: &ScanCase, tp: &[u16]) -> String {
    let mut t = Tape { data: tp, pos: 0 };
    let mut s = String::new();
    let n = 1 + t.next(9);
    let comment_styles: Vec<&SMode> = c.modes.iter().filter(|m| !m.line_comments.is_empty() || !m.block_comments.is_empty()).collect();
    for _ in 0..n {
        match t.next(12) {
            0..=6 => {
                let term = &c.terms[t.next(c.terms.len())];
                term.rx.sample(&mut t, ALPHABET, &mut s);
            }
            7 => s.push(ALPHABET[t.next(ALPHABET.len())]),
            8 => s.push_str(["~", "\u{e9}", "\u{1F600}", "\u{4e2d}"][t.next(4)]),
            9 if !comment_styles.is_empty() => {
                let m = comment_styles[t.next(comment_styles.len())];
                if !m.block_comments.is_empty() && t.next(2) == 0 {
                    let (a, b) = &m.block_comments[0];
                    s.push_str(a);
                    s.push_str([" c ", "", "a\nb", "\u{e9}", "*", "x*y"][t.next(6)]);
                    s.push_str(b);
                } else if !m.line_comments.is_empty() {
                    s.push_str(&m.line_comments[0]);
                    s.push_str([" c", "", "ab+", " \u{4e2d}"][t.next(4)]);
                    s.push_str(["\n", "\r\n"][t.next(2)]);
                }
            }
            _ => {}
        }
        // separator
        match t.next(8) {
            0..=2 => s.push(' '),
            3 => s.push('\n'),
            4 => s.push_str("\r\n"),
            5 => s.push('\t'),
            _ => {}
        }
    }
    // parol's dedicated pattern for C-style comments runs on when the closing `*/` is directly
    // followed by `/` (recorded under C15); keep that shape out of the other scanner checks
    while s.contains("*//") {
        s = s.replace("*//", "*/ /");
    }
    s
}

pub fn scan_case_strategy(p: ScanParams, n_inputs: usize) -> BoxedStrategy<ScanCase> {
    (tape(40..120), proptest::collection::vec(tape(10..50), n_inputs..=n_inputs)).prop_map(move |(gt, its)| gen_scan_case(&gt, &its, &p)).boxed()
}

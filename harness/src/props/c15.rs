//! C15 Comment tokens end exactly at the first end delimiter
//! C16 Unmatched input is an error unless explicitly allowed

use super::c13::show_toks;
use crate::ast::*;
use crate::chart::Tape;
use crate::engine::*;
use crate::interp::{self, Outcome, RunOpts, Tok};
use crate::loader;
use crate::pipeline::{self, Opts};
use crate::rx::*;
use crate::util::{guard, hash_of};
use proptest::prelude::*;
use proptest::strategy::BoxedStrategy;
use serde::{Deserialize, Serialize};
use serde_json::json;

pub struct C15;

#[derive(Clone, Debug, Serialize, Deserialize)]
pub struct CommentCase {
    pub line: Vec<(String, Quote)>,
    pub block: Vec<(String, String, Quote)>,
    pub inputs: Vec<String>,
}

const DELIM_CHARS: &[char] = &['-', '>', '<', '!', '*', '/', 'a', 'b', '(', ')', '#', '+', '%', '|'];

fn lit(s: &str, q: Quote) -> Lit {
    match q {
        Quote::Raw => Lit::raw(s),
        q => Lit { text: regex::escape(s).replace('/', "\\/"), quote: q },
    }
}

fn comment_grammar(c: &CommentCase) -> Grammar {
    // user terminals are disjoint from the delimiter alphabet
    let mut g = Grammar::new(
        "Start",
        vec![
            Prod { lhs: "Start".into(), alts: vec![vec![Factor::Rep(vec![vec![Factor::n("X")], vec![Factor::n("Y")]])]] },
            Prod { lhs: "X".into(), alts: vec![vec![Factor::t("x")]] },
            Prod { lhs: "Y".into(), alts: vec![vec![Factor::t("y")]] },
        ],
    );
    g.initial.line_comments = c.line.iter().map(|(s, q)| lit(s, *q)).collect();
    g.initial.block_comments = c.block.iter().map(|(s, e, q)| (lit(s, *q), lit(e, *q))).collect();
    g
}

fn gen_comment_case(gt: &[u16], its: &[Vec<u16>]) -> CommentCase {
    let mut t = Tape { data: gt, pos: 0 };
    let q = |t: &mut Tape| [Quote::Raw, Quote::Raw, Quote::Str, Quote::Rx][t.next(4)];
    let word = |t: &mut Tape, min: usize, max: usize| -> String {
        let n = min + t.next(max - min + 1);
        // biased to few distinct characters so that delimiters overlap themselves
        let base = t.next(DELIM_CHARS.len());
        (0..n).map(|_| DELIM_CHARS[(base + t.next(3)) % DELIM_CHARS.len()]).collect()
    };
    let mut block = vec![];
    for _ in 0..t.next(3) {
        if t.next(4) == 0 {
            // the C style, for which parol has a dedicated pattern
            block.push(("/*".to_string(), "*/".to_string(), q(&mut t)));
            continue;
        }
        let s = word(&mut t, 1, 4);
        let e = word(&mut t, 1, 3);
        block.push((s, e, q(&mut t)));
    }
    let mut line = vec![];
    for _ in 0..t.next(3) {
        line.push((word(&mut t, 1, 3), q(&mut t)));
    }
    if block.is_empty() && line.is_empty() {
        block.push((word(&mut t, 1, 4), word(&mut t, 1, 3), Quote::Raw));
    }
    let c0 = CommentCase { line, block, inputs: vec![] };
    let inputs = its
        .iter()
        .map(|tp| {
            let mut t = Tape { data: tp, pos: 0 };
            let mut s = String::new();
            for _ in 0..1 + t.next(3) {
                match t.next(6) {
                    0 => s.push_str("x "),
                    1 => s.push_str("y\n"),
                    _ => {}
                }
                let use_block = !c0.block.is_empty() && (c0.line.is_empty() || t.next(3) != 0);
                if use_block {
                    let (st, en, _) = &c0.block[t.next(c0.block.len())];
                    s.push_str(st);
                    // body: pieces of the end delimiter, repeated first characters, other text
                    for _ in 0..t.next(5) {
                        match t.next(7) {
                            0 => s.push_str(&en[..en.char_indices().nth(1).map(|x| x.0).unwrap_or(en.len())]),
                            1 if en.chars().count() >= 2 => s.push_str(&en[..en.char_indices().nth(2).map(|x| x.0).unwrap_or(en.len())]),
                            2 => s.push(' '),
                            3 => s.push_str("x"),
                            4 => s.push('\n'),
                            5 => s.push(DELIM_CHARS[t.next(DELIM_CHARS.len())]),
                            _ => s.push_str("\u{e9}"),
                        }
                    }
                    if t.next(8) != 0 {
                        s.push_str(en);
                    }
                    // tail, possibly with a second end delimiter
                    match t.next(4) {
                        0 => {
                            s.push_str(" y ");
                            s.push_str(en);
                        }
                        1 => s.push_str(" x"),
                        _ => {}
                    }
                } else if !c0.line.is_empty() {
                    let (st, _) = &c0.line[t.next(c0.line.len())];
                    s.push_str(st);
                    for _ in 0..t.next(4) {
                        match t.next(4) {
                            0 => s.push(' '),
                            1 => s.push('x'),
                            2 => s.push(DELIM_CHARS[t.next(DELIM_CHARS.len())]),
                            _ => s.push('\u{4e2d}'),
                        }
                    }
                    s.push_str(["\n", "\r\n", "\r", "", "\n\n", "\r\r\n"][t.next(6)]);
                    match t.next(3) {
                        0 => s.push_str("x y"),
                        1 => s.push_str("y\n"),
                        _ => {}
                    }
                }
            }
            s
        })
        .collect();
    CommentCase { inputs, ..c0 }
}

fn ref_mode(c: &CommentCase) -> Vec<RefMode> {
    vec![RefMode {
        auto_nl: true,
        auto_ws: true,
        line_comments: c.line.iter().map(|x| x.0.clone()).collect(),
        block_comments: c.block.iter().map(|x| (x.0.clone(), x.1.clone())).collect(),
        allow_unmatched: false,
        terms: vec![
            RefTerm { ty: 5, rx: Rx::lit_str("x"), lookahead: None },
            RefTerm { ty: 6, rx: Rx::lit_str("y"), lookahead: None },
        ],
        transitions: vec![],
    }]
}

impl Check for C15 {
    type Case = CommentCase;
    fn id(&self) -> &'static str {
        "C15"
    }
    fn rule(&self) -> String {
        "case = 0-2 %block_comment pairs (start 1-4 characters, end 1-3 characters over {- > < ! * / a b ( ) # + % |}, biased to self-overlapping delimiters such as -- --> aab) and 0-2 %line_comment starts, written as '..', \"..\" or /../ literals; user terminals x, y disjoint from the delimiter alphabet; 8 inputs `start body end tail` whose bodies contain proper prefixes of the end delimiter, repeated first characters, second end delimiters, non-ASCII text, and line comments terminated by LF, CRLF, lone CR or end of input; oracle: reference lexer where a block comment runs from its start delimiter to the first later occurrence of its end delimiter and a line comment runs to and including the first line break (LF, CRLF or CR) or the end of input; the whole token sequence of the real scanner is compared. Evaluations = inputs. Non-trivial = input whose comment body contains a proper prefix of the end delimiter directly in front of it, or a second end delimiter; distinct by (declarations, input)".into()
    }
    fn strategy(&self, _tier: Tier) -> BoxedStrategy<CommentCase> {
        (tape(20..60), proptest::collection::vec(tape(20..60), 8..=8)).prop_map(|(g, i)| gen_comment_case(&g, &i)).boxed()
    }
    fn cases(&self, tier: Tier) -> u32 {
        tier.pick(50000, 800000)
    }
    fn run(&self, c: &CommentCase, st: &mut Stats) -> Verdict {
        let g = comment_grammar(c);
        let text = g.print();
        let built = match pipeline::build(&text, &Opts::default()) {
            Ok(b) => b,
            Err(f) if f.is_panic() => return Verdict::Skip("pipeline panics (C26's subject)".into()),
            Err(f) => return Verdict::Skip(format!("declaration rejected: {}", crate::util::trunc(f.msg().rsplit(": ").next().unwrap_or(""), 40))),
        };
        let l = match guard(|| loader::load(&built.parser_src)) {
            Ok(Ok(l)) => l,
            Ok(Err(e)) => return Verdict::Fail("C15:generated_scanner_invalid".into(), format!("{e}\n{text}")),
            Err(p) => return Verdict::Fail("C15:generated_comment_regex_invalid".into(), format!("the scanner macro rejects the generated patterns: {p}\n{text}")),
        };
        let modes = ref_mode(c);
        let err_ty = 7u16;
        for input in &c.inputs {
            st.eval(1);
            let want: Vec<(u16, usize, usize)> = ref_lex(&modes, input, err_ty).into_iter().map(|t| (t.ty, t.start, t.end)).collect();
            let got = match interp::drain(&l, input, 1) {
                Ok(t) => t,
                Err(e) => return Verdict::Fail("C15:token_stream_failure".into(), format!("{e}\ninput {input:?}\n{text}")),
            };
            let got: Vec<(u16, usize, usize)> = got.iter().filter(|t| t.ty != 0).map(|t| (t.ty, t.start, t.end)).collect();
            if got != want {
                // classify by what starts at the first differing position
                let i = got.iter().zip(&want).position(|(a, b)| a != b).unwrap_or(got.len().min(want.len()));
                let w = want.get(i).copied().unwrap_or((0, input.len(), input.len()));
                let rest = &input[w.1..];
                let tileable = |body: &[char], e: &[char]| -> bool {
                    let n = body.len();
                    let mut can = vec![false; n + 1];
                    can[0] = true;
                    for i in 0..n {
                        if !can[i] {
                            continue;
                        }
                        if body[i] != e[0] {
                            can[i + 1] = true;
                        }
                        if i + 1 < n && body[i] == e[0] && body[i + 1] != e[1] {
                            can[i + 2] = true;
                        }
                        if i + 2 < n && body[i] == e[0] && body[i + 1] == e[1] && body[i + 2] != e[2] {
                            can[i + 3] = true;
                        }
                    }
                    can[n]
                };
                // a line comment starting here whose line contains a lone carriage return
                let lone_cr = c.line.iter().any(|(s0, _)| {
                    rest.starts_with(s0.as_str()) && {
                        let line = rest.split('\n').next().unwrap_or("");
                        let b = line.as_bytes();
                        (0..b.len()).any(|k| b[k] == b'\r' && k + 1 < b.len())
                            || (line.ends_with('\r') && line.len() == rest.len())
                    }
                });
                // a block comment starting here with a three-character end delimiter whose body (up to
                // the first end delimiter) cannot be tiled by [^e0] | e0[^e1] | e0e1[^e2]
                let partial3 = c.block.iter().any(|(s0, e, _)| {
                    let ev: Vec<char> = e.chars().collect();
                    ev.len() == 3 && rest.starts_with(s0.as_str()) && {
                        let after = &rest[s0.len()..];
                        match after.find(e.as_str()) {
                            Some(q) => !tileable(&after[..q].chars().collect::<Vec<_>>(), &ev),
                            None => false,
                        }
                    }
                });
                // the C-style pattern /\*/?([^/]|[^*]/)*\*/ runs on when the closing */ is directly
                // followed by a slash
                let c_style_slash = c.block.iter().any(|(s0, e, _)| {
                    s0 == "/*" && e == "*/" && rest.starts_with("/*") && rest[2..].find("*/").is_some_and(|q| rest[2 + q + 2..].starts_with('/'))
                });
                let sig = if c_style_slash {
                    "C15:c_style_block_comment_directly_followed_by_slash"
                } else if partial3 {
                    "C15:block_comment_3_char_end_delimiter_after_partial_delimiter"
                } else if lone_cr {
                    "C15:line_comment_ended_by_lone_cr"
                } else if w.0 == 4 {
                    "C15:block_comment_differs"
                } else if w.0 == 3 {
                    "C15:line_comment_differs"
                } else {
                    "C15:tokens_around_comment_differ"
                };
                return Verdict::Fail(sig.into(), format!("input {input:?}\nscanner:   {}\nreference: {}\n{text}", show_toks(&got, input), show_toks(&want, input)));
            }
            let mut nt = false;
            for w in &want {
                if w.0 == 4 {
                    let wt = &input[w.1..w.2];
                    if let Some((s, e, _)) = c.block.iter().find(|(s, e, _)| wt.starts_with(s.as_str()) && wt.ends_with(e.as_str()) && wt.len() >= s.len() + e.len()) {
                        let body = wt.get(s.len()..wt.len() - e.len()).unwrap_or("");
                        let first: String = e.chars().take(1).collect();
                        if body.ends_with(&first) || input[w.2..].contains(e.as_str()) {
                            nt = true;
                        }
                    }
                }
                if w.0 == 3 {
                    st.class("line_comment");
                }
            }
            if nt {
                st.nontrivial(hash_of(&(&text, input)));
            }
            st.sample(|| json!({"declarations": text.lines().filter(|l| l.starts_with('%')).collect::<Vec<_>>(), "input": input, "tokens": show_toks(&want, input)}));
        }
        Verdict::Pass
    }
}

// ---------------------------------------------------------------------------------------------
pub struct C16;

#[derive(Clone, Debug, Serialize, Deserialize)]
pub struct StrayCase {
    pub auto_nl_off: bool,
    pub auto_ws_off: bool,
    pub allow_unmatched: bool,
    pub lr: bool,
    /// sentence as indices into ["a","b","c"], separators
    pub sentence: Vec<u8>,
    pub seps: Vec<u8>,
    pub stray: String,
    pub pos: usize,
}

const STRAYS: &[&str] = &["~", "\n", "\r", "\r\n", "\t", " ", "\u{e9}", "\u{0}", "\u{1F600}", "@@", "\u{2028}", "\u{85}", "~\n~"];

fn stray_grammar(c: &StrayCase) -> Grammar {
    // S: 'a' { 'b' } [ 'c' ]   over whitespace-separable terminals; W: /[ \t]+/ and N: newline are
    // user-handled when the automatic handling is switched off
    let mut prods = vec![Prod {
        lhs: "S".into(),
        alts: vec![vec![Factor::t("a"), Factor::Rep(vec![vec![Factor::t("b")]]), Factor::Opt(vec![vec![Factor::t("c")]])]],
    }];
    let _ = &mut prods;
    let mut g = Grammar::new("S", prods);
    if c.lr {
        g.gtype = Some(GType::LALR);
    }
    g.initial.auto_newline_off = c.auto_nl_off;
    g.initial.auto_ws_off = c.auto_ws_off;
    g.initial.allow_unmatched = c.allow_unmatched;
    g
}

impl StrayCase {
    fn render(&self, with_stray: bool) -> String {
        let mut s = String::new();
        for (i, t) in self.sentence.iter().enumerate() {
            if with_stray && i == self.pos {
                s.push_str(&self.stray);
            }
            s.push_str(["a", "b", "c"][*t as usize % 3]);
            // separator: only ones every configuration tokenizes the same way are usable as
            // "neutral"; with the automatic handling off there is no neutral separator
            let sep = self.seps.get(i).copied().unwrap_or(0) % 3;
            if !self.auto_ws_off && sep == 1 {
                s.push(' ');
            }
            if !self.auto_nl_off && sep == 2 {
                s.push('\n');
            }
        }
        if with_stray && self.pos >= self.sentence.len() {
            s.push_str(&self.stray);
        }
        s
    }
}

#[derive(Clone, Debug, Serialize, Deserialize)]
pub enum UnmatchedCase {
    Fixed(StrayCase),
    Scan(super::scan::ScanCase),
}

impl Check for C16 {
    type Case = UnmatchedCase;
    fn id(&self) -> &'static str {
        "C16"
    }
    fn rule(&self) -> String {
        "two families. (1) random scanner grammars as in C13 without lookaheads (several scanner states with their own %allow_unmatched / auto flags, terminals limited to some states, state switches): if the reference lexer finds text that no rule of the active state matches and that state has no %allow_unmatched, the parse must fail; if the parse succeeds every unmatched gap is a leaf of the tree. (2) grammar S: 'a' { 'b' } [ 'c' ] (ll(k) or lalr(1)) x {auto newline, auto whitespace, allow_unmatched} on/off x a token string (sentence or not) x one stray text (unmatched printable, LF, CR, CRLF, tab, space, non-ASCII, NUL, U+2028, U+0085) inserted at a random token boundary; oracle via the reference lexer: if some character of the stray text is matched by no rule of the state (no terminal, whitespace, newline or comment rule), then without %allow_unmatched the parse must fail, and with it the verdict must equal the verdict of the input without the stray text and the parse tree must contain the unmatched text as a leaf. Evaluations = parser runs. Non-trivial = stray text really unmatched in that state (decided by the reference lexer); distinct by case".into()
    }
    fn strategy(&self, _tier: Tier) -> BoxedStrategy<UnmatchedCase> {
        let scan = super::scan::scan_case_strategy(super::scan::ScanParams { lookaheads: false, ..Default::default() }, 6).prop_map(UnmatchedCase::Scan);
        let fixed = (any::<[bool; 4]>(), proptest::collection::vec(0u8..3, 0..6), proptest::collection::vec(0u8..3, 6), 0usize..STRAYS.len(), 0usize..7, any::<bool>())
            .prop_map(|(f, raw, seps, si, pos, valid)| {
                // half of the cases start from a sentence a b* c?
                let sentence = if valid {
                    let mut s = vec![0u8];
                    s.extend(raw.iter().filter(|x| **x == 1).map(|_| 1u8));
                    if raw.last() == Some(&2) {
                        s.push(2);
                    }
                    s
                } else {
                    raw
                };
                let pos = pos.min(sentence.len());
                UnmatchedCase::Fixed(StrayCase { auto_nl_off: f[0], auto_ws_off: f[1], allow_unmatched: f[2], lr: f[3], sentence, seps, stray: STRAYS[si].to_string(), pos })
            });
        proptest::strategy::Union::new_weighted(vec![(2, fixed.boxed()), (1, scan.boxed())]).boxed()
    }
    fn cases(&self, tier: Tier) -> u32 {
        tier.pick(80000, 1200000)
    }
    fn shards(&self, _tier: Tier) -> usize {
        16
    }
    fn run(&self, c: &UnmatchedCase, st: &mut Stats) -> Verdict {
        let c = match c {
            UnmatchedCase::Fixed(c) => c,
            UnmatchedCase::Scan(sc) => return run_scan(sc, st),
        };
        thread_local! {
            static CACHE: std::cell::RefCell<std::collections::BTreeMap<(bool, bool, bool, bool), Option<std::rc::Rc<loader::Loaded>>>> = const { std::cell::RefCell::new(std::collections::BTreeMap::new()) };
        }
        let key = (c.auto_nl_off, c.auto_ws_off, c.allow_unmatched, c.lr);
        let g = stray_grammar(c);
        let text = g.print();
        let l = CACHE.with(|m| {
            m.borrow_mut()
                .entry(key)
                .or_insert_with(|| pipeline::build(&text, &Opts::default()).ok().and_then(|b| guard(|| loader::load(&b.parser_src)).ok().and_then(|r| r.ok())).map(std::rc::Rc::new))
                .clone()
        });
        let Some(l) = l else { return Verdict::Broken(format!("cannot build the fixed grammar\n{text}")) };
        let modes = vec![RefMode {
            auto_nl: !c.auto_nl_off,
            auto_ws: !c.auto_ws_off,
            allow_unmatched: c.allow_unmatched,
            terms: vec![
                RefTerm { ty: 5, rx: Rx::lit_str("a"), lookahead: None },
                RefTerm { ty: 6, rx: Rx::lit_str("b"), lookahead: None },
                RefTerm { ty: 7, rx: Rx::lit_str("c"), lookahead: None },
            ],
            ..Default::default()
        }];
        let err_ty = 8u16;
        let with = c.render(true);
        let without = c.render(false);
        let rt = ref_lex(&modes, &with, err_ty);
        let really_unmatched = rt.iter().any(|t| t.ty == err_ty || t.ty == T_INVALID);
        if !really_unmatched {
            st.class("stray_text_is_matched_by_a_rule(out of scope)");
            return Verdict::Pass;
        }
        let o = RunOpts::default();
        let run_with = interp::run(&l, &with, &o, 50_000);
        let run_without = interp::run(&l, &without, &o, 50_000);
        st.eval(2);
        if let Outcome::Panic(p) = &run_with.outcome {
            return Verdict::Fail("C16:parser_panic".into(), format!("{p}\ninput {with:?}\n{text}"));
        }
        let ok_with = run_with.outcome.is_ok();
        let ok_without = run_without.outcome.is_ok();
        let unmatched_chars: String = rt.iter().filter(|t| t.ty == err_ty || t.ty == T_INVALID).map(|t| with[t.start..t.end].to_string()).collect::<Vec<_>>().join("");
        let kind = if unmatched_chars.chars().all(|ch| ch == '\n') { "line_feed" } else { "other" };
        if !c.allow_unmatched {
            st.class("not_allowed");
            if ok_with {
                let sig = if kind == "line_feed" && c.auto_nl_off { "C16:stray_line_feed_accepted_with_auto_newline_off" } else { "C16:unmatched_input_accepted" };
                return Verdict::Fail(sig.into(), format!("input {with:?} contains unmatched text {unmatched_chars:?} but is accepted\n{text}"));
            }
        } else {
            st.class("allowed");
            if ok_with != ok_without {
                return Verdict::Fail("C16:allowed_unmatched_text_changes_verdict".into(), format!("with stray text {with:?}: {ok_with}; without {without:?}: {ok_without}\n{text}"));
            }
            if ok_with {
                let mut leaves: Vec<&Tok> = vec![];
                run_with.tree.as_ref().unwrap().leaves(&mut leaves);
                let kept: String = leaves.iter().filter(|t| t.ty == T_INVALID).map(|t| t.text.clone()).collect::<Vec<_>>().join("");
                if kept != unmatched_chars {
                    return Verdict::Fail("C16:unmatched_text_not_kept_in_tree".into(), format!("input {with:?}: tree keeps {kept:?}, unmatched text is {unmatched_chars:?}\n{text}"));
                }
            }
        }
        st.nontrivial(hash_of(&format!("{c:?}")));
        st.sample(|| json!({"grammar_flags": {"auto_newline_off": c.auto_nl_off, "auto_ws_off": c.auto_ws_off, "allow_unmatched": c.allow_unmatched, "lalr": c.lr}, "input": with, "accepted": ok_with}));
        Verdict::Pass
    }
}


/// family (1): multi-state scanner grammars
fn run_scan(c: &super::scan::ScanCase, st: &mut Stats) -> Verdict {
    let (l, text) = match super::c13::load_case(c) {
        Ok(x) => x,
        Err(v) => return v,
    };
    let modes = c.ref_modes();
    let err_ty = c.error_ty();
    for input in &c.inputs {
        // replay the reference lexer while tracking the mode of every token
        let toks = ref_lex(&modes, input, err_ty);
        let mut mode = 0usize;
        let mut stack: Vec<usize> = vec![];
        let mut unmatched_not_allowed = false;
        let mut gaps: Vec<(usize, usize)> = vec![];
        let mut offending: Vec<(usize, usize)> = vec![];
        for t in &toks {
            if t.ty == err_ty || (t.ty == T_INVALID && !modes[mode].allow_unmatched) {
                unmatched_not_allowed = true;
                offending.push((t.start, t.end));
            }
            if t.ty == T_INVALID {
                gaps.push((t.start, t.end));
            }
            if let Some((_, sw)) = modes[mode].transitions.iter().find(|(tt, _)| *tt == t.ty) {
                match sw {
                    Sw::Enter(n) => mode = *n,
                    Sw::Push(n) => {
                        stack.push(mode);
                        mode = *n;
                    }
                    Sw::Pop => {
                        if let Some(n) = stack.pop() {
                            mode = n;
                        }
                    }
                }
            }
        }
        let run = interp::run(&l, input, &RunOpts::default(), 50_000);
        st.eval(1);
        if let Outcome::Panic(p) = &run.outcome {
            return Verdict::Fail("C16:parser_panic".into(), format!("{p}\ninput {input:?}\n{text}"));
        }
        if unmatched_not_allowed {
            st.class("scanner_family/unmatched_where_not_allowed");
            st.nontrivial(hash_of(&(&text, input)));
            if run.outcome.is_ok() {
                let only_lf = offending.iter().all(|(a, b)| input[*a..*b].chars().all(|ch| ch == '\n'));
                let sig = if only_lf { "C16:stray_line_feed_accepted_with_auto_newline_off" } else { "C16:unmatched_input_accepted" };
                return Verdict::Fail(sig.into(), format!("input {input:?} contains text no rule of the active scanner state matches, but is accepted\nreference tokens {}\n{text}", show_toks(&toks.iter().map(|t| (t.ty, t.start, t.end)).collect::<Vec<_>>(), input)));
            }
        } else if !gaps.is_empty() {
            st.class("scanner_family/unmatched_where_allowed");
            st.nontrivial(hash_of(&(&text, input)));
            if run.outcome.is_ok() {
                let mut leaves: Vec<&Tok> = vec![];
                run.tree.as_ref().unwrap().leaves(&mut leaves);
                let kept: Vec<(usize, usize)> = leaves.iter().filter(|t| t.ty == T_INVALID).map(|t| (t.start, t.end)).collect();
                if kept != gaps {
                    return Verdict::Fail("C16:unmatched_text_not_kept_in_tree".into(), format!("input {input:?}: tree keeps gaps {kept:?}, reference {gaps:?}\n{text}"));
                }
            }
        }
    }
    Verdict::Pass
}

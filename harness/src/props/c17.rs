//! C17 Skipped tokens never influence parsing; comments are delivered once, in order

use super::common::*;
use crate::ast::*;
use crate::chart::Tape;
use crate::engine::*;
use crate::gens::{GenParams, InTok};
use crate::interp::{self, Child, Outcome, RunOpts, Tok};
use crate::pipeline::Opts;
use crate::util::hash_of;
use proptest::prelude::*;
use proptest::strategy::BoxedStrategy;
use serde::{Deserialize, Serialize};
use serde_json::json;

pub struct C17;

#[derive(Clone, Debug, Serialize, Deserialize)]
pub struct SkipCase {
    pub base: ParseCase,
    /// per input: decoration choices
    pub deco: Vec<Vec<u16>>,
}

const SKIP_TEXT: &str = "skp";

fn with_skip(g: &Grammar) -> Grammar {
    let mut g = g.clone();
    g.prods.push(Prod { lhs: "Sk".into(), alts: vec![vec![Factor::t(SKIP_TEXT)]] });
    g.initial.skip.push("Sk".into());
    g
}

const DECOS: &[&str] = &[" ", "\n", " /* c1 */ ", " // c2\n", " skp ", "\t", " skp skp ", " /* a\nb */", "\r\n", " skp /* c3 */ skp\n"];

fn render(toks: &[InTok], terms: &[Term], deco: Option<&[u16]>) -> String {
    let mut s = String::new();
    let mut t = Tape { data: deco.unwrap_or(&[]), pos: 0 };
    let mut gap = |s: &mut String, first_or_last: bool| match deco {
        None => {
            if !first_or_last {
                s.push(' ')
            }
        }
        Some(_) => {
            let n = if first_or_last { t.next(2) } else { 1 + t.next(2) };
            for _ in 0..n {
                s.push_str(DECOS[t.next(DECOS.len())]);
            }
        }
    };
    gap(&mut s, true);
    for (i, tk) in toks.iter().enumerate() {
        if i > 0 {
            gap(&mut s, false);
        }
        match tk {
            InTok::T(k) => s.push_str(&terms[*k].sample),
            InTok::Foreign => s.push('~'),
        }
    }
    gap(&mut s, true);
    s
}

fn strip(ch: &[Child]) -> Vec<(u16, String)> {
    ch.iter()
        .map(|c| match c {
            Child::T(t) => (t.ty, t.text.clone()),
            Child::N(n) => (u16::MAX, n.clone()),
        })
        .collect()
}

impl Check for C17 {
    type Case = SkipCase;
    fn id(&self) -> &'static str {
        "C17"
    }
    fn rule(&self) -> String {
        "case = random ll(k) or lalr(1) grammar with line and block comments plus a terminal that is listed in the scanner state's %skip list and used by no production, x 8 token strings (sentences, mutants, random); each string is rendered plainly (single spaces) and decorated (whitespace runs, LF/CRLF, line and block comments, skip-listed tokens at every gap, also in front and at the end); metamorphic oracle: same verdict, identical semantic-action sequence (production numbers and children up to positions), on_comment calls = the comments of the decorated input exactly once each in input order (for rejected inputs: a duplicate-free in-order subsequence), and every token of the decorated input including the skipped ones is a leaf of the tree. Evaluations = (plain, decorated) pairs. Non-trivial = decorated input with >= 1 comment and >= 1 skip-listed token and >= 2 grammar tokens; distinct by (grammar, decorated input)".into()
    }
    fn strategy(&self, tier: Tier) -> BoxedStrategy<SkipCase> {
        let mk = |lr: bool| {
            let p = tier_params(tier, if lr { GenParams::lr() } else { GenParams::ll() });
            (parse_case_strategy(p, lr, 8), proptest::collection::vec(tape(10..40), 8..=8)).prop_map(|(base, deco)| SkipCase { base, deco })
        };
        proptest::strategy::Union::new(vec![mk(false).boxed(), mk(true).boxed()]).boxed()
    }
    fn cases(&self, tier: Tier) -> u32 {
        tier.pick(24000, 300000)
    }
    fn run(&self, case: &SkipCase, st: &mut Stats) -> Verdict {
        let g = with_skip(&case.base.grammar);
        let opts = Opts { max_k: case.base.max_k, ..Opts::default() };
        let r = match prepare(&g, &opts) {
            Prep::Ready(r) => r,
            Prep::Rejected(f) => return Verdict::Skip(format!("grammar rejected at {:?}", f.stage())),
            Prep::LoadErr(e) => return Verdict::Broken(format!("cannot load generated source: {e}")),
        };
        if r.built.lr.as_ref().is_some_and(|l| !l.1.is_empty()) {
            return Verdict::Skip("resolved conflicts (C04's subject)".into());
        }
        let lr = g.is_lr();
        let gtext = g.print();
        let terms = IGrammar::from(&case.base.grammar).terms;
        let k = r.max_k().max(1);
        let skip_ty = r.loaded.tables.skip_by_state.first().and_then(|v| v.first().copied());
        let Some(skip_ty) = skip_ty else {
            return Verdict::Fail("C17:skip_list_empty_in_generated_source".into(), format!("{gtext}"));
        };
        for (inp, deco) in case.base.inputs.iter().zip(&case.deco) {
            let plain = render(&inp.toks, &terms, None);
            let decorated = render(&inp.toks, &terms, Some(deco));
            let a = interp::run(&r.loaded, &plain, &RunOpts::default(), 200_000);
            let b = interp::run(&r.loaded, &decorated, &RunOpts::default(), 200_000);
            st.eval(1);
            let ctx = || format!("{} grammar\nplain {plain:?}\ndecorated {decorated:?}\n{gtext}", if lr { "LALR(1)" } else { "LL(k)" });
            for (x, name) in [(&a, "plain"), (&b, "decorated")] {
                if let Outcome::Panic(p) = &x.outcome {
                    return Verdict::Fail(format!("C17:parser_panic_{}", if lr { "lr" } else { "ll" }), format!("{name} input: {p}\n{}", ctx()));
                }
                if x.outcome == Outcome::WorkLimit {
                    return Verdict::Skip("work limit (C19's subject)".into());
                }
            }
            if a.outcome.is_ok() != b.outcome.is_ok() {
                return Verdict::Fail("C17:skipped_tokens_change_verdict".into(), format!("plain: {:?}, decorated: {:?}\n{}", a.outcome, b.outcome, ctx()));
            }
            let toks = match interp::drain(&r.loaded, &decorated, k) {
                Ok(t) => t,
                Err(e) => return Verdict::Fail("C17:token_stream_failure".into(), format!("{e}\n{}", ctx())),
            };
            let comments: Vec<&Tok> = toks.iter().filter(|t| t.ty == 3 || t.ty == 4).collect();
            let got: Vec<(usize, &str)> = b.trace.comments.iter().map(|t| (t.start, t.text.as_str())).collect();
            let want: Vec<(usize, &str)> = comments.iter().map(|t| (t.start, t.text.as_str())).collect();
            if a.outcome.is_ok() {
                let sa: Vec<(usize, Vec<(u16, String)>)> = a.trace.actions.iter().map(|(p, c)| (*p, strip(c))).collect();
                let sb: Vec<(usize, Vec<(u16, String)>)> = b.trace.actions.iter().map(|(p, c)| (*p, strip(c))).collect();
                if sa != sb {
                    let i = sa.iter().zip(&sb).position(|(x, y)| x != y).unwrap_or(sa.len().min(sb.len()));
                    return Verdict::Fail(
                        format!("C17:skipped_tokens_change_derivation_{}", if lr { "lr" } else { "ll" }),
                        format!("first differing action #{i}: plain {:?} decorated {:?}\n{}", sa.get(i), sb.get(i), ctx()),
                    );
                }
                if got != want {
                    return Verdict::Fail("C17:comments_not_delivered_once_in_order".into(), format!("on_comment calls {got:?}\ncomments in input {want:?}\n{}", ctx()));
                }
                let mut leaves: Vec<&Tok> = vec![];
                if let Some(t) = &b.tree {
                    t.leaves(&mut leaves);
                }
                let all: Vec<&Tok> = toks.iter().filter(|t| t.ty != 0).collect();
                if leaves.len() != all.len() || leaves.iter().zip(&all).any(|(x, y)| (x.ty, x.start, x.end) != (y.ty, y.start, y.end)) {
                    return Verdict::Fail("C17:skipped_token_missing_in_tree".into(), format!("leaves {:?}\ntokens {:?}\n{}", leaves.iter().map(|t| &t.text).collect::<Vec<_>>(), all.iter().map(|t| &t.text).collect::<Vec<_>>(), ctx()));
                }
                st.class(if lr { "accepted/LR" } else { "accepted/LL" });
            } else {
                // duplicate-free, in-order subsequence
                let mut it = want.iter();
                let sub = got.iter().all(|g| it.any(|w| w == g));
                if !sub {
                    return Verdict::Fail("C17:comments_duplicated_or_reordered_on_error".into(), format!("on_comment calls {got:?}\ncomments in input {want:?}\n{}", ctx()));
                }
                st.class(if lr { "rejected/LR" } else { "rejected/LL" });
            }
            let n_skip = toks.iter().filter(|t| t.ty == skip_ty).count();
            if !comments.is_empty() && n_skip >= 1 && inp.toks.len() >= 2 {
                st.nontrivial(hash_of(&(&gtext, &decorated)));
            }
            st.sample(|| json!({"grammar": gtext, "plain": plain, "decorated": decorated, "accepted": a.outcome.is_ok()}));
        }
        Verdict::Pass
    }
}

pub mod common;
pub mod c01;

pub mod common;
pub mod c01;
pub mod c02;

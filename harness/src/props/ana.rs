//! Shared pieces of the analysis checks (C05-C08): case type, preparation, conversions.

use crate::ast::*;
use crate::chart;
use crate::engine::{Tier, tape};
use crate::ffref::{Bnf, Set};
use crate::gens::{self, GenParams};
use crate::pipeline;
use parol::{GrammarConfig, KTuples};
use proptest::prelude::*;
use proptest::strategy::BoxedStrategy;
use serde::{Deserialize, Serialize};

#[derive(Clone, Debug, Serialize, Deserialize)]
pub struct AnaCase {
    pub grammar: Grammar,
    pub max_k: usize,
    /// request history: (true = FOLLOW, false = FIRST, k)
    pub history: Vec<(bool, usize)>,
    /// extra choices for buffers etc.
    pub tape: Vec<u16>,
}

pub fn bound_k(n_terms: usize, k: usize, limit: f64) -> usize {
    let nt = (n_terms + 1) as f64;
    let kmax = (limit.ln() / nt.ln()).floor() as usize;
    k.min(kmax.max(1)).min(10)
}

pub fn ana_strategy(tier: Tier, ebnf: bool) -> BoxedStrategy<AnaCase> {
    let mut p = GenParams::ll();
    p.ebnf = ebnf;
    p.comments = false;
    p.max_t = tier.pick(5, 6);
    p.max_nt = tier.pick(5, 6);
    (tape(30..110), 1usize..=10, proptest::collection::vec((any::<bool>(), 1usize..=10), 1..6), tape(8..40))
        .prop_map(move |(gt, k, hist, tp)| {
            let mut t = chart::Tape { data: &gt, pos: 0 };
            let grammar = gens::grammar(&mut t, &p);
            let n = grammar.terms().len();
            let max_k = bound_k(n, k, 6000.0);
            let history = hist.into_iter().map(|(f, k)| (f, bound_k(n, k, 6000.0))).collect();
            AnaCase { grammar, max_k, history, tape: tp }
        })
        .boxed()
}

/// transformed (left-factored) grammar config or the reason it is out of domain
pub fn transformed(g: &Grammar) -> Result<GrammarConfig, String> {
    let gc0 = pipeline::read_grammar(&g.print()).map_err(|f| format!("rejected at {:?}", f.stage()))?;
    pipeline::transform(&gc0).map_err(|f| format!("rejected at {:?}{}", f.stage(), if f.is_panic() { " (panic)" } else { "" }))
}

pub const EPS: u16 = 0xFFFF;

/// parol's k-tuple set as a set of terminal strings (epsilon tuple = empty string)
pub fn to_set(kt: &KTuples) -> (Set, usize) {
    let v = kt.sorted();
    let n = v.len();
    (v.iter().map(|t| t.terminals().iter().filter(|x| *x != EPS).collect::<Vec<u16>>()).collect(), n)
}

pub fn show_set(s: &Set) -> String {
    let v: Vec<String> = s.iter().take(40).map(|x| format!("{x:?}")).collect();
    format!("{{{}{}}}", v.join(" "), if s.len() > 40 { " …" } else { "" })
}

pub fn diff_sets(a: &Set, b: &Set) -> String {
    let only_a: Set = a.difference(b).cloned().collect();
    let only_b: Set = b.difference(a).cloned().collect();
    format!("only in parol: {}  only in reference: {}", show_set(&only_a), show_set(&only_b))
}

pub fn render_bnf(g: &Bnf) -> String {
    g.prods
        .iter()
        .enumerate()
        .map(|(i, (l, r))| {
            format!(
                "/*{i}*/ {}: {};",
                g.nts[*l],
                r.iter()
                    .map(|s| match s {
                        crate::ffref::BSym::T(t) => format!("t{t}"),
                        crate::ffref::BSym::N(n) => g.nts.get(*n).cloned().unwrap_or("?".into()),
                    })
                    .collect::<Vec<_>>()
                    .join(" ")
            )
        })
        .collect::<Vec<_>>()
        .join("\n")
}

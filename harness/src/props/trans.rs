//! C09 EBNF canonicalization, C10 left factoring, C11 well-formedness checks, C12 LR augmentation

use crate::ast::*;
use crate::cfgconv::{cfg_from_grammar, igrammar_from_cfg, sets};
use crate::chart::{self, Lang};
use crate::engine::*;
use crate::gens::{self, GenParams};
use crate::pipeline;
use crate::util::{guard, hash_of};
use parol::parser::parol_grammar::GrammarType;
use parol::{Cfg, GrammarAnalysisError, Symbol};
use proptest::prelude::*;
use proptest::strategy::BoxedStrategy;
use serde::{Deserialize, Serialize};
use serde_json::json;
use std::collections::{BTreeMap, BTreeSet};

#[derive(Clone, Debug, Serialize, Deserialize)]
pub struct GCase {
    pub grammar: Grammar,
    pub tape: Vec<u16>,
}

fn gcase_strategy(p: GenParams, lr: bool) -> BoxedStrategy<GCase> {
    (tape(30..120), tape(30..90))
        .prop_map(move |(gt, tp)| {
            let mut t = chart::Tape { data: &gt, pos: 0 };
            let mut grammar = gens::grammar(&mut t, &p);
            if lr {
                grammar.gtype = Some(GType::LALR);
            }
            GCase { grammar, tape: tp }
        })
        .boxed()
}

/// as `gcase_strategy`, decorated with lookahead variants of a terminal text (same text and kind,
/// other lookahead expression: different terminals) and AST-control attributes on occurrences
fn gcase_strategy_deco(p: GenParams, lr: bool) -> BoxedStrategy<GCase> {
    (tape(30..120), tape(30..90), tape(30..60))
        .prop_map(move |(gt, tp, dt)| {
            let mut t = chart::Tape { data: &gt, pos: 0 };
            let mut grammar = gens::grammar(&mut t, &p);
            if lr {
                grammar.gtype = Some(GType::LALR);
            }
            let mut d = chart::Tape { data: &dt, pos: 0 };
            gens::lookahead_variants(&mut grammar, &mut d);
            if d.next(2) == 1 {
                gens::ast_annotate(&mut grammar, &mut d);
            }
            GCase { grammar, tape: tp }
        })
        .boxed()
}

fn show(w: &[u8], terms: &[Term]) -> String {
    w.iter().map(|t| terms.get(*t as usize).map(|x| x.lit.text.clone()).unwrap_or("?".into())).collect::<Vec<_>>().join(" ")
}

/// two-sided language comparison of two indexed grammars over the same terminal list
/// Ok(number of strings compared) or Err(witness description)
fn same_language(a: &IGrammar, b: &IGrammar, l: usize, tape: &[u16], what: (&str, &str)) -> Result<Option<usize>, String> {
    let la = chart::lang_upto(a, l, 30000);
    let lb = chart::lang_upto(b, l, 30000);
    let mut n = None;
    if let (Some(la), Some(lb)) = (&la, &lb) {
        if la != lb {
            let w = la.symmetric_difference(lb).min_by_key(|w| w.len()).unwrap();
            let side = if la.contains(w) { what.0 } else { what.1 };
            return Err(format!("`{}` is generated only by {side}", show(w, &a.terms)));
        }
        n = Some(la.len());
    }
    // longer sentences by random derivation, both directions
    let ha = chart::min_heights(a);
    let hb = chart::min_heights(b);
    for i in 0..8 {
        let start = (i * 7) % tape.len().max(1);
        let tp = &tape[start.min(tape.len())..];
        if let Some(s) = chart::sentence(a, &ha, 3 + i % 4, tp) {
            if s.len() < 40 && !chart::member(b, &s) {
                let w: Vec<u8> = s.iter().map(|x| *x as u8).collect();
                return Err(format!("`{}` is generated only by {}", show(&w, &a.terms), what.0));
            }
        }
        if let Some(s) = chart::sentence(b, &hb, 3 + i % 4, tp) {
            if s.len() < 40 && !chart::member(a, &s) {
                let w: Vec<u8> = s.iter().map(|x| *x as u8).collect();
                return Err(format!("`{}` is generated only by {}", show(&w, &a.terms), what.1));
            }
        }
    }
    Ok(n)
}

/// per-non-terminal language comparison for names present on both sides
fn same_nt_languages(a: &IGrammar, b: &IGrammar, l: usize) -> Result<(), String> {
    let (Some(la), Some(lb)) = (chart::langs_upto(a, l, 30000), chart::langs_upto(b, l, 30000)) else { return Ok(()) };
    for (i, n) in a.nts.iter().enumerate() {
        if a.undefined.contains(n) {
            continue;
        }
        if let Some(j) = b.nts.iter().position(|m| m == n) {
            if la[i] != lb[j] {
                let w = la[i].symmetric_difference(&lb[j]).min_by_key(|w| w.len()).unwrap();
                return Err(format!("non-terminal {n}: `{}` derivable on one side only (in written grammar: {})", show(w, &a.terms), la[i].contains(w)));
            }
        }
    }
    Ok(())
}

fn render_cfg(cfg: &Cfg) -> String {
    cfg.pr.iter().enumerate().map(|(i, p)| format!("/*{i}*/ {p}")).collect::<Vec<_>>().join("\n")
}

// ---------------------------------------------------------------------------------------------
pub struct C09;

impl Check for C09 {
    type Case = GCase;
    fn id(&self) -> &'static str {
        "C09"
    }
    fn rule(&self) -> String {
        "case = random EBNF grammar text (groups/optionals/repetitions/alternations nested <= 3, <= 6 non-terminals, <= 5 terminals), a third of the non-terminals renamed to helper-looking names (XOpt, XList, XGroup, XSuffix, X0 ...), sometimes with a reference to an undefined helper-looking name inside a nested construct; read by parol as ll(k) and as lalr(1); oracle: the set of all sentences up to length 6 of the written EBNF (set-of-strings fixpoint over the AST) equals that of the derived plain productions, per user non-terminal as well, plus random longer derivations checked by the other side's chart recogniser; every non-terminal parol introduces must be a name not used anywhere in the written grammar. Evaluations = grammar x grammar type. Non-trivial = >= 2 nested constructs or >= 1 helper-looking name; distinct by grammar text".into()
    }
    fn strategy(&self, tier: Tier) -> BoxedStrategy<GCase> {
        let mut p = GenParams::ll();
        p.max_t = 5;
        p.max_depth = 3;
        p.comments = false;
        p.hostile_names = true;
        p.max_nt = tier.pick(5, 6);
        let mut q = p.clone();
        q.left_rec = true;
        q.ll_bias = false;
        proptest::strategy::Union::new(vec![gcase_strategy(p, false), gcase_strategy(q, false)]).boxed()
    }
    fn cases(&self, tier: Tier) -> u32 {
        tier.pick(16000, 250000)
    }
    fn run(&self, case: &GCase, st: &mut Stats) -> Verdict {
        let ig = IGrammar::from(&case.grammar);
        let used = case.grammar.used_names();
        let user_nts: BTreeSet<String> = case.grammar.nts().into_iter().collect();
        let hostile = used.iter().any(|n| gens::HELPER_SUFFIXES.iter().any(|s| n.len() > s.len() && n.ends_with(s)));
        for ty in [GType::LL, GType::LALR] {
            let mut g = case.grammar.clone();
            g.gtype = Some(ty);
            let text = g.print();
            let gc0 = match pipeline::read_grammar(&text) {
                Ok(g) => g,
                Err(f) if f.is_panic() => return Verdict::Fail("C09:panic_while_reading".into(), format!("{}\n{text}", f.msg())),
                Err(f) => {
                    st.class(&format!("rejected: {}", crate::util::trunc(f.msg().rsplit(": ").next().unwrap_or(""), 50)));
                    continue;
                }
            };
            st.eval(1);
            let cfg = &gc0.cfg;
            let ic = igrammar_from_cfg(cfg, &ig.terms);
            let ctx = || format!("grammar type {ty:?}\n{text}\nderived productions:\n{}", render_cfg(cfg));
            // freshness of introduced names
            let introduced: BTreeSet<String> = cfg.pr.iter().map(|p| p.get_n()).collect();
            for n in introduced {
                if !user_nts.contains(&n) && used.contains(&n) {
                    return Verdict::Fail("C09:helper_name_collides_with_used_name".into(), format!("introduced non-terminal {n} is a name the grammar uses\n{}", ctx()));
                }
            }
            if let Err(w) = same_language(&ig, &ic, 6, &case.tape, ("the grammar as written", "the derived productions")) {
                return Verdict::Fail("C09:language_differs".into(), format!("{w}\n{}", ctx()));
            }
            if let Err(w) = same_nt_languages(&ig, &ic, 5) {
                return Verdict::Fail("C09:non_terminal_language_differs".into(), format!("{w}\n{}", ctx()));
            }
        }
        if hostile {
            st.class("with_helper_looking_names");
        }
        if !ig.undefined.is_empty() {
            st.class("with_undefined_reference");
        }
        st.class(&format!("nesting={}", case.grammar.max_nesting()));
        if case.grammar.count_constructs() >= 2 || hostile {
            st.nontrivial(hash_of(&case.grammar.print()));
        }
        st.sample(|| json!({"grammar": case.grammar.print()}));
        Verdict::Pass
    }
}

// ---------------------------------------------------------------------------------------------
pub struct C10;

impl Check for C10 {
    type Case = GCase;
    fn id(&self) -> &'static str {
        "C10"
    }
    fn rule(&self) -> String {
        "case = random grammar over 2-4 terminals without LL bias (many shared prefixes of length 1-4, duplicate alternatives, several prefix groups per non-terminal; plain BNF and canonicalized EBNF; helper-looking names like XSuffix, XSuffix0 in use; a quarter of the cases with lookahead variants of one terminal text - equal text, other lookahead expression - and clipping / member names / user types on occurrences), its Cfg (as parol reads it) passed to the public left_factor; oracle: call returns (no panic, output <= 6x input productions + 16), language up to length 6 and of random longer derivations is unchanged (also per original non-terminal), no non-terminal keeps two non-empty alternatives starting with the same symbol, introduced names are not names used by the input. Evaluations = grammars factored. Non-trivial = factoring changed the grammar; distinct by grammar text".into()
    }
    fn strategy(&self, tier: Tier) -> BoxedStrategy<GCase> {
        let mut p = GenParams::ll();
        p.max_t = 3;
        p.ll_bias = false;
        p.comments = false;
        p.ebnf = false;
        p.max_alts = 5;
        p.max_len = tier.pick(5, 6);
        p.hostile_names = true;
        let mut q = p.clone();
        q.ebnf = true;
        q.max_alts = 3;
        let mut r = p.clone();
        r.left_rec = true;
        proptest::strategy::Union::new(vec![gcase_strategy(p.clone(), false), gcase_strategy(q, false), gcase_strategy(r, false), gcase_strategy_deco(p, false)]).boxed()
    }
    fn cases(&self, tier: Tier) -> u32 {
        tier.pick(80000, 1000000)
    }
    fn run(&self, case: &GCase, st: &mut Stats) -> Verdict {
        let text = case.grammar.print();
        let gc0 = match pipeline::read_grammar(&text) {
            Ok(g) => g,
            Err(f) => return Verdict::Skip(format!("rejected at {:?}", f.stage())),
        };
        let cfg = &gc0.cfg;
        let ig = IGrammar::from(&case.grammar);
        let ia = igrammar_from_cfg(cfg, &ig.terms);
        let lf = match guard(|| parol::left_factor(cfg)) {
            Ok(c) => c,
            Err(p) => return Verdict::Fail("C10:left_factor_panics".into(), format!("{p}\n{text}")),
        };
        st.eval(1);
        let ctx = || format!("{text}\ninput productions:\n{}\nleft factored:\n{}", render_cfg(cfg), render_cfg(&lf));
        if lf.pr.len() > 6 * cfg.pr.len() + 16 {
            return Verdict::Fail("C10:output_explodes".into(), ctx());
        }
        if lf.get_start_symbol() != cfg.get_start_symbol() {
            return Verdict::Fail("C10:start_symbol_changed".into(), ctx());
        }
        let ib = igrammar_from_cfg(&lf, &ia.terms);
        if let Err(w) = same_language(&ia, &ib, 6, &case.tape, ("the input grammar", "the left-factored grammar")) {
            return Verdict::Fail("C10:language_differs".into(), format!("{w}\n{}", ctx()));
        }
        if let Err(w) = same_nt_languages(&ia, &ib, 5) {
            return Verdict::Fail("C10:non_terminal_language_differs".into(), format!("{w}\n{}", ctx()));
        }
        // no shared first symbols left
        let mut by_lhs: BTreeMap<String, Vec<&Symbol>> = BTreeMap::new();
        for p in &lf.pr {
            if let Some(f) = p.get_r().first() {
                by_lhs.entry(p.get_n()).or_default().push(f);
            }
        }
        for (n, firsts) in &by_lhs {
            for i in 0..firsts.len() {
                for j in i + 1..firsts.len() {
                    if firsts[i] == firsts[j] {
                        return Verdict::Fail("C10:shared_prefix_left".into(), format!("non-terminal {n} keeps two alternatives starting with {}\n{}", firsts[i], ctx()));
                    }
                }
            }
        }
        // fresh names: a non-terminal that gets productions only by factoring must not be a name
        // the input already uses (defined or merely referenced)
        let defined_before: BTreeSet<String> = cfg.pr.iter().map(|p| p.get_n()).collect();
        let used = cfg.get_non_terminal_set();
        let defined_after: BTreeSet<String> = lf.pr.iter().map(|p| p.get_n()).collect();
        for n in defined_after {
            if !defined_before.contains(&n) && used.contains(&n) {
                return Verdict::Fail("C10:suffix_name_collides".into(), format!("introduced non-terminal {n} is a name the input uses\n{}", ctx()));
            }
        }
        let changed = lf.pr.len() != cfg.pr.len() || lf.pr.iter().zip(&cfg.pr).any(|(a, b)| a != b);
        if changed {
            st.class("factoring_happened");
            st.nontrivial(hash_of(&text));
        } else {
            st.class("nothing_to_factor");
        }
        st.sample(|| json!({"input": render_cfg(cfg), "left_factored": render_cfg(&lf)}));
        Verdict::Pass
    }
}

// ---------------------------------------------------------------------------------------------
pub struct C11;

fn names_of(e: &parol_runtime_err::Err) -> Option<(String, BTreeSet<String>)> {
    let ge = e.downcast_ref::<GrammarAnalysisError>()?;
    Some(match ge {
        GrammarAnalysisError::NonProductiveNonTerminals { non_terminals } => {
            ("non_productive".into(), non_terminals.iter().map(|h| h.hint.clone()).collect())
        }
        GrammarAnalysisError::UnreachableNonTerminals { non_terminals } => {
            ("unreachable".into(), non_terminals.iter().map(|h| h.hint.clone()).collect())
        }
        GrammarAnalysisError::LeftRecursion { recursions } => ("left_recursion".into(), recursions.iter().map(|r| r.name.clone()).collect()),
        _ => ("other".into(), BTreeSet::new()),
    })
}

mod parol_runtime_err {
    pub type Err = anyhow::Error;
}

impl Check for C11 {
    type Case = GCase;
    fn id(&self) -> &'static str {
        "C11"
    }
    fn rule(&self) -> String {
        "case = random plain BNF Cfg value built without repairs (non-productive, unreachable, directly / indirectly / nullable-hidden left-recursive non-terminals, duplicate and empty productions; start symbol always has a production, every referenced name is defined); oracle: the four sets computed from the definitions (fixpoints, transitive closure of 'starts with' through nullable prefixes) must equal calculate_nullable_non_terminals, non_productive_non_terminals, unreachable_non_terminals and detect_left_recursive_non_terminals; check_and_transform_grammar for ll(k) and lalr(1) must fail iff non-productive, then unreachable, then (LL only) left-recursive non-terminals exist, naming exactly that set. Evaluations = set comparisons + transform verdicts. Non-trivial = at least one of the four sets is a non-empty proper subset; distinct by grammar".into()
    }
    fn strategy(&self, tier: Tier) -> BoxedStrategy<GCase> {
        let mut p = GenParams::ll();
        p.ebnf = false;
        p.repair = false;
        p.left_rec = true;
        p.ll_bias = false;
        p.fix_nullable_bodies = false;
        p.comments = false;
        p.max_nt = tier.pick(6, 7);
        p.max_t = 3;
        p.max_len = 3;
        let mut q = p.clone();
        q.left_rec = false;
        q.repair = true;
        proptest::strategy::Union::new_weighted(vec![(3, gcase_strategy(p, false)), (1, gcase_strategy(q, false))]).boxed()
    }
    fn cases(&self, tier: Tier) -> u32 {
        tier.pick(300000, 3000000)
    }
    fn run(&self, case: &GCase, st: &mut Stats) -> Verdict {
        let Some(cfg) = cfg_from_grammar(&case.grammar) else { return Verdict::Skip("not plain".into()) };
        let ig = IGrammar::from(&case.grammar);
        let s = sets(&ig);
        let all: BTreeSet<String> = ig.nts.iter().cloned().collect();
        let ctx = || render_cfg(&cfg);
        macro_rules! cmp {
            ($sig:literal, $got:expr, $want:expr) => {{
                st.eval(1);
                let got: BTreeSet<String> = match guard(|| $got) {
                    Ok(g) => g.into_iter().collect(),
                    Err(p) => return Verdict::Fail(format!("C11:{}_panics", $sig), format!("{p}\n{}", ctx())),
                };
                let want: BTreeSet<String> = $want;
                if got != want {
                    return Verdict::Fail(format!("C11:{}_set_differs", $sig), format!("parol: {got:?}\nreference: {want:?}\n{}", ctx()));
                }
            }};
        }
        let non_productive: BTreeSet<String> = all.difference(&s.productive).cloned().collect();
        let unreachable: BTreeSet<String> = all.difference(&s.reachable).cloned().collect();
        cmp!("nullable", cfg.calculate_nullable_non_terminals(), s.nullable.clone());
        cmp!("non_productive", parol::analysis::non_productive_non_terminals(&cfg), non_productive.clone());
        cmp!("unreachable", parol::analysis::unreachable_non_terminals(&cfg), unreachable.clone());
        cmp!("left_recursive", parol::detect_left_recursive_non_terminals(&cfg).into_iter().collect::<BTreeSet<String>>(), s.left_recursive.clone());
        for (ty, is_ll) in [(GrammarType::LLK, true), (GrammarType::LALR1, false)] {
            st.eval(1);
            let r = match guard(|| parol::check_and_transform_grammar(&cfg, ty)) {
                Ok(r) => r,
                Err(p) => return Verdict::Fail("C11:check_and_transform_panics".into(), format!("{p}\n{}", ctx())),
            };
            let want: Option<(&str, &BTreeSet<String>)> = if !non_productive.is_empty() {
                Some(("non_productive", &non_productive))
            } else if !unreachable.is_empty() {
                Some(("unreachable", &unreachable))
            } else if is_ll && !s.left_recursive.is_empty() {
                Some(("left_recursion", &s.left_recursive))
            } else {
                None
            };
            let got = match &r {
                Ok(_) => None,
                Err(e) => {
                    let any = match e {
                        parol_runtime::ParolError::UserError(a) => names_of(a),
                        _ => None,
                    };
                    Some(any.unwrap_or(("other".into(), BTreeSet::new())))
                }
            };
            let ok = match (&got, &want) {
                (None, None) => true,
                (Some((k, n)), Some((wk, wn))) => k == wk && n == *wn,
                _ => false,
            };
            if !ok {
                return Verdict::Fail(
                    "C11:rejection_differs".into(),
                    format!("check_and_transform_grammar({ty:?}) gives {got:?}, expected {want:?}\n{}", ctx()),
                );
            }
            st.class(&format!("{ty:?}: {}", want.map(|w| w.0).unwrap_or("accepted")));
        }
        let proper = |x: &BTreeSet<String>| !x.is_empty() && x.len() < all.len();
        if proper(&s.nullable) || proper(&non_productive) || proper(&unreachable) || proper(&s.left_recursive) {
            st.nontrivial(hash_of(&ctx()));
        }
        st.sample(|| json!({"grammar": ctx(), "nullable": s.nullable, "non_productive": non_productive, "unreachable": unreachable, "left_recursive": s.left_recursive}));
        Verdict::Pass
    }
}

// ---------------------------------------------------------------------------------------------
pub struct C12;

impl Check for C12 {
    type Case = GCase;
    fn id(&self) -> &'static str {
        "C12"
    }
    fn rule(&self) -> String {
        "case = random grammar (EBNF and plain, left recursion allowed, start symbol with one or several productions, used or not used on right-hand sides, names S0/S1 possibly taken) read by parol as lalr(1) and, if productive and reachable, passed to check_and_transform_grammar(.., LALR1); oracle: result generates the same language (all sentences up to length 6 + random longer derivations, chart recogniser both ways), its start symbol has exactly one production and occurs on no right-hand side. Evaluations = grammars transformed. Non-trivial = input start symbol occurs on a right-hand side; distinct by grammar text".into()
    }
    fn strategy(&self, tier: Tier) -> BoxedStrategy<GCase> {
        let mut p = GenParams::lr();
        p.comments = false;
        p.max_t = 4;
        p.hostile_names = true;
        p.max_nt = tier.pick(4, 6);
        let mut q = p.clone();
        q.ebnf = false;
        proptest::strategy::Union::new(vec![gcase_strategy(p.clone(), true), gcase_strategy(q, true), gcase_strategy_deco(p, true)]).boxed()
    }
    fn cases(&self, tier: Tier) -> u32 {
        tier.pick(48000, 600000)
    }
    fn run(&self, case: &GCase, st: &mut Stats) -> Verdict {
        let text = case.grammar.print();
        let gc0 = match pipeline::read_grammar(&text) {
            Ok(g) => g,
            Err(f) => return Verdict::Skip(format!("rejected at {:?}", f.stage())),
        };
        let cfg = &gc0.cfg;
        let out = match guard(|| parol::check_and_transform_grammar(cfg, GrammarType::LALR1)) {
            Ok(Ok(c)) => c,
            Ok(Err(_)) => return Verdict::Skip("rejected by the well-formedness checks (C11's subject)".into()),
            Err(p) => return Verdict::Fail("C12:transformation_panics".into(), format!("{p}\n{text}")),
        };
        st.eval(1);
        let ctx = || format!("{text}\ninput productions:\n{}\nhanded to table construction:\n{}", render_cfg(cfg), render_cfg(&out));
        let start = out.get_start_symbol().to_string();
        let n_start = out.matching_productions(&start).len();
        if n_start != 1 {
            return Verdict::Fail("C12:start_symbol_production_count".into(), format!("start symbol {start} has {n_start} productions\n{}", ctx()));
        }
        if out.pr.iter().any(|p| p.get_r().iter().any(|s| matches!(s, Symbol::N(n, ..) if *n == start))) {
            return Verdict::Fail("C12:start_symbol_on_rhs".into(), format!("start symbol {start} occurs on a right-hand side\n{}", ctx()));
        }
        if start != cfg.get_start_symbol() && cfg.get_non_terminal_set().contains(&start) {
            return Verdict::Fail("C12:new_start_symbol_not_fresh".into(), format!("new start symbol {start} is a name the input uses\n{}", ctx()));
        }
        let ig = IGrammar::from(&case.grammar);
        let ia = igrammar_from_cfg(cfg, &ig.terms);
        let ib = igrammar_from_cfg(&out, &ia.terms);
        if let Err(w) = same_language(&ia, &ib, 6, &case.tape, ("the input grammar", "the augmented grammar")) {
            return Verdict::Fail("C12:language_differs".into(), format!("{w}\n{}", ctx()));
        }
        let in_start = cfg.get_start_symbol();
        let used = cfg.pr.iter().any(|p| p.get_r().iter().any(|s| matches!(s, Symbol::N(n, ..) if n == in_start)));
        let n_in = cfg.matching_productions(in_start).len();
        st.class(&format!("start_productions={}{}", n_in.min(3), if used { ",used_on_rhs" } else { "" }));
        if used {
            st.nontrivial(hash_of(&text));
        }
        st.sample(|| json!({"input": render_cfg(cfg), "output": render_cfg(&out)}));
        Verdict::Pass
    }
}

#[allow(dead_code)]
fn _unused(_: Lang) {}

//! Conversions between the generator's AST and parol's `Cfg`, and the reference definitions of the
//! grammar sets (nullable, productive, reachable, left-recursive).

use crate::ast::*;
use parol::parser::parol_grammar::LookaheadExpression;
use parol::{Cfg, Pr, Symbol, SymbolAttribute, Terminal, TerminalKind};
use std::collections::BTreeSet;

fn kind_of(q: Quote) -> TerminalKind {
    match q {
        Quote::Raw => TerminalKind::Raw,
        Quote::Str => TerminalKind::Legacy,
        Quote::Rx => TerminalKind::Regex,
    }
}

/// plain grammar (only T / N factors) -> Cfg, built through parol's public constructors
pub fn cfg_from_grammar(g: &Grammar) -> Option<Cfg> {
    let mut cfg = Cfg::with_start_symbol(&g.start);
    for p in &g.prods {
        for alt in &p.alts {
            let mut rhs = vec![];
            for f in alt {
                match f {
                    Factor::T { term, .. } => rhs.push(Symbol::T(Terminal::Trm(
                        term.lit.text.clone(),
                        kind_of(term.lit.quote),
                        vec![0],
                        SymbolAttribute::None,
                        None,
                        None,
                        None,
                    ))),
                    Factor::N { name, .. } => rhs.push(Symbol::n(name)),
                    _ => return None,
                }
            }
            cfg = cfg.add_pr(Pr::new(&p.lhs, rhs));
        }
    }
    Some(cfg)
}

fn la_key(l: &Option<LookaheadExpression>) -> Option<(bool, String, bool)> {
    l.as_ref().map(|l| (l.is_positive, l.pattern.clone(), !matches!(l.kind, TerminalKind::Raw)))
}

/// Cfg -> indexed plain grammar.  Terminals are matched to `terms` by parol's terminal identity
/// (text, raw-vs-regex behaviour, lookahead); unknown ones are appended.
pub fn igrammar_from_cfg(cfg: &Cfg, terms: &[Term]) -> IGrammar {
    let mut terms: Vec<Term> = terms.to_vec();
    let mut nts: Vec<String> = vec![];
    for p in &cfg.pr {
        let n = p.get_n();
        if !nts.contains(&n) {
            nts.push(n);
        }
    }
    let mut undefined = vec![];
    for p in &cfg.pr {
        for s in p.get_r() {
            if let Symbol::N(n, ..) = s {
                if !nts.contains(n) {
                    undefined.push(n.clone());
                    nts.push(n.clone());
                }
            }
        }
    }
    let mut rules: Vec<IAlts> = vec![vec![]; nts.len()];
    for p in &cfg.pr {
        let lhs = nts.iter().position(|n| *n == p.get_n()).unwrap();
        let mut alt = vec![];
        for s in p.get_r() {
            match s {
                Symbol::N(n, ..) => alt.push(IFactor::N(nts.iter().position(|x| x == n).unwrap())),
                Symbol::T(Terminal::Trm(t, k, _, _, _, _, l)) => {
                    let key = (t.clone(), !matches!(k, TerminalKind::Raw), la_key(l));
                    let idx = match terms.iter().position(|x| x.identity() == key) {
                        Some(i) => i,
                        None => {
                            terms.push(Term {
                                lit: Lit { text: t.clone(), quote: if key.1 { Quote::Str } else { Quote::Raw } },
                                lookahead: l.as_ref().map(|l| (l.is_positive, Lit { text: l.pattern.clone(), quote: if matches!(l.kind, TerminalKind::Raw) { Quote::Raw } else { Quote::Str } })),
                                sample: t.clone(),
                            });
                            terms.len() - 1
                        }
                    };
                    alt.push(IFactor::T(idx));
                }
                _ => {}
            }
        }
        rules[lhs].push(alt);
    }
    let start = nts.iter().position(|n| n == cfg.get_start_symbol()).unwrap_or(usize::MAX);
    IGrammar { start, nts, terms, rules, undefined }
}

/// Reference grammar sets of a plain indexed grammar, straight from the definitions
pub struct Sets {
    pub nullable: BTreeSet<String>,
    pub productive: BTreeSet<String>,
    pub reachable: BTreeSet<String>,
    pub left_recursive: BTreeSet<String>,
}

pub fn sets(g: &IGrammar) -> Sets {
    let n = g.nts.len();
    let seq = |alt: &IAlt, ok: &[bool]| alt.iter().all(|f| match f { IFactor::T(_) => false, IFactor::N(x) => ok[*x], _ => false });
    let mut nullable = vec![false; n];
    loop {
        let mut ch = false;
        for i in 0..n {
            if !nullable[i] && g.rules[i].iter().any(|a| seq(a, &nullable)) {
                nullable[i] = true;
                ch = true;
            }
        }
        if !ch {
            break;
        }
    }
    let mut productive = vec![false; n];
    loop {
        let mut ch = false;
        for i in 0..n {
            if !productive[i] && g.rules[i].iter().any(|a| a.iter().all(|f| match f { IFactor::T(_) => true, IFactor::N(x) => productive[*x], _ => false })) {
                productive[i] = true;
                ch = true;
            }
        }
        if !ch {
            break;
        }
    }
    let mut reachable = vec![false; n];
    if g.start != usize::MAX {
        reachable[g.start] = true;
        let mut work = vec![g.start];
        while let Some(i) = work.pop() {
            for a in &g.rules[i] {
                for f in a {
                    if let IFactor::N(x) = f {
                        if !reachable[*x] {
                            reachable[*x] = true;
                            work.push(*x);
                        }
                    }
                }
            }
        }
    }
    // A starts-with B: A -> alpha B beta with alpha nullable
    let mut sw = vec![vec![false; n]; n];
    for i in 0..n {
        for a in &g.rules[i] {
            for f in a {
                match f {
                    IFactor::N(x) => {
                        sw[i][*x] = true;
                        if !nullable[*x] {
                            break;
                        }
                    }
                    _ => break,
                }
            }
        }
    }
    for k in 0..n {
        for i in 0..n {
            for j in 0..n {
                if sw[i][k] && sw[k][j] {
                    sw[i][j] = true;
                }
            }
        }
    }
    let names = |v: &dyn Fn(usize) -> bool| (0..n).filter(|i| v(*i)).map(|i| g.nts[i].clone()).collect::<BTreeSet<String>>();
    Sets {
        nullable: names(&|i| nullable[i]),
        productive: names(&|i| productive[i]),
        reachable: names(&|i| reachable[i]),
        left_recursive: names(&|i| sw[i][i]),
    }
}

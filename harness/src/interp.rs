//! Drives the real parol_runtime parsers (LLKParser / LRParser over a real TokenStream) with
//! tables loaded from generated source text, recording everything observable.

use crate::loader::{DynMatch, Loaded};
use crate::util::guard;
use parol_runtime::parser::parse_tree_type::TreeConstruct;
use parol_runtime::{
    LLKParser, LRParser, LexerError, ParolError, ParseTreeType, ParserError, Token, TokenStream,
    UserActionsTrait,
};
use scnr2::ScannerImpl;
use serde::Serialize;
use std::cell::RefCell;
use std::rc::Rc;

#[derive(Clone, Debug, PartialEq, Eq, Hash, Serialize)]
pub struct Tok {
    pub ty: u16,
    pub text: String,
    pub start: usize,
    pub end: usize,
    pub sl: u32,
    pub sc: u32,
    pub el: u32,
    pub ec: u32,
    pub number: u32,
}

impl Tok {
    pub fn from(t: &Token<'_>) -> Tok {
        Tok {
            ty: t.token_type,
            text: t.text().to_string(),
            start: t.location.start as usize,
            end: t.location.end as usize,
            sl: t.location.start_line,
            sc: t.location.start_column,
            el: t.location.end_line,
            ec: t.location.end_column,
            number: t.token_number,
        }
    }
}

#[derive(Clone, Debug, PartialEq, Eq, Hash, Serialize)]
pub enum Node {
    N(String, Vec<Node>),
    T(Tok),
}

impl Node {
    pub fn leaves<'a>(&'a self, out: &mut Vec<&'a Tok>) {
        match self {
            Node::T(t) => out.push(t),
            Node::N(_, c) => c.iter().for_each(|n| n.leaves(out)),
        }
    }
    pub fn height(&self) -> usize {
        match self {
            Node::T(_) => 0,
            Node::N(_, c) => 1 + c.iter().map(|n| n.height()).max().unwrap_or(0),
        }
    }
}

#[derive(Clone, Debug, PartialEq, Eq, Hash, Serialize)]
pub enum Child {
    T(Tok),
    N(String),
}

#[derive(Clone, Debug, Default, PartialEq, Eq, Serialize)]
pub struct Trace {
    pub actions: Vec<(usize, Vec<Child>)>,
    pub comments: Vec<Tok>,
}

pub const WORK_LIMIT_MSG: &str = "pv: work limit exceeded";

/// Tree builder that records the tree and counts calls
pub struct RecBuilder {
    stack: Vec<(String, Vec<Node>)>,
    pub root: Option<Node>,
    pub calls: usize,
    pub limit: usize,
    pub unbalanced: bool,
}

impl RecBuilder {
    pub fn new(limit: usize) -> Self {
        RecBuilder { stack: vec![], root: None, calls: 0, limit, unbalanced: false }
    }
    fn tick(&mut self) -> Result<(), ParolError> {
        self.calls += 1;
        if self.calls > self.limit {
            Err(ParolError::UserError(anyhow::anyhow!(WORK_LIMIT_MSG)))
        } else {
            Ok(())
        }
    }
}

impl<'t> TreeConstruct<'t> for RecBuilder {
    type Error = ParolError;
    type Tree = Option<Node>;
    fn open_non_terminal(&mut self, name: &'static str, _h: Option<usize>) -> Result<(), ParolError> {
        self.tick()?;
        self.stack.push((name.to_string(), vec![]));
        Ok(())
    }
    fn close_non_terminal(&mut self) -> Result<(), ParolError> {
        self.tick()?;
        match self.stack.pop() {
            Some((n, c)) => {
                let node = Node::N(n, c);
                if let Some(top) = self.stack.last_mut() {
                    top.1.push(node);
                } else if self.root.is_none() {
                    self.root = Some(node);
                } else {
                    self.unbalanced = true;
                }
            }
            None => self.unbalanced = true,
        }
        Ok(())
    }
    fn add_token(&mut self, token: &Token<'t>) -> Result<(), ParolError> {
        self.tick()?;
        match self.stack.last_mut() {
            Some(top) => top.1.push(Node::T(Tok::from(token))),
            None => self.unbalanced = true,
        }
        Ok(())
    }
    fn build(self) -> Result<Option<Node>, ParolError> {
        Ok(self.root)
    }
}

pub struct Recorder {
    pub trace: Trace,
    pub calls: usize,
    pub limit: usize,
}

impl<'t> UserActionsTrait<'t> for Recorder {
    fn call_semantic_action_for_production_number(
        &mut self,
        prod_num: usize,
        children: &[ParseTreeType<'t>],
    ) -> parol_runtime::Result<()> {
        self.calls += 1;
        if self.calls > self.limit {
            return Err(ParolError::UserError(anyhow::anyhow!(WORK_LIMIT_MSG)));
        }
        let ch = children
            .iter()
            .map(|c| match c {
                ParseTreeType::T(t) => Child::T(Tok::from(t)),
                ParseTreeType::N(n) => Child::N(n.to_string()),
            })
            .collect();
        self.trace.actions.push((prod_num, ch));
        Ok(())
    }
    fn on_comment(&mut self, token: Token<'t>) {
        self.trace.comments.push(Tok::from(&token));
    }
}

#[derive(Clone, Debug, PartialEq, Eq, Hash, Serialize, serde::Deserialize)]
pub struct RunOpts {
    pub trim: bool,
    /// LL only
    pub recovery: bool,
    pub max_depth: Option<usize>,
    /// lookahead size of the token stream; None = generated value (MAX_K for LL, 1 for LR)
    pub k: Option<usize>,
}

impl Default for RunOpts {
    fn default() -> Self {
        RunOpts { trim: false, recovery: true, max_depth: None, k: None }
    }
}

#[derive(Clone, Debug, PartialEq, Eq, Serialize)]
pub enum Outcome {
    Ok,
    /// error class, number of syntax error entries (if any)
    Err(String, usize),
    Panic(String),
    WorkLimit,
}

impl Outcome {
    pub fn is_ok(&self) -> bool {
        matches!(self, Outcome::Ok)
    }
    pub fn is_panic(&self) -> bool {
        matches!(self, Outcome::Panic(_))
    }
}

pub struct Run {
    pub outcome: Outcome,
    pub trace: Trace,
    pub tree: Option<Node>,
    pub builder_calls: usize,
    pub action_calls: usize,
    pub unbalanced: bool,
}

pub fn classify_err(e: &ParolError) -> (String, usize) {
    match e {
        ParolError::ParserError(p) => match p {
            ParserError::TreeError { .. } => ("TreeError".into(), 0),
            ParserError::DataError(_) => ("DataError".into(), 0),
            ParserError::PredictionError { .. } => ("PredictionError".into(), 0),
            ParserError::SyntaxErrors { entries } => ("SyntaxErrors".into(), entries.len()),
            ParserError::UnprocessedInput { .. } => ("UnprocessedInput".into(), 0),
            ParserError::Unsupported { .. } => ("Unsupported".into(), 0),
            ParserError::TooManyErrors { count } => ("TooManyErrors".into(), *count),
            ParserError::MaxParsingDepthExceeded { .. } => ("MaxParsingDepthExceeded".into(), 0),
            ParserError::RecoveryFailed => ("RecoveryFailed".into(), 0),
            ParserError::InternalError(m) => (format!("InternalError({m})"), 0),
        },
        ParolError::LexerError(l) => match l {
            LexerError::InternalError(m) => (format!("LexerInternalError({m})"), 0),
            l => (format!("LexerError({l})"), 0),
        },
        ParolError::UserError(u) => {
            if u.to_string() == WORK_LIMIT_MSG {
                ("WORKLIMIT".into(), 0)
            } else {
                (format!("UserError({u})"), 0)
            }
        }
    }
}

pub fn new_stream<'t>(
    l: &Loaded,
    input: &'t str,
    k: usize,
) -> Result<TokenStream<'t, DynMatch>, LexerError> {
    let scanner_impl = Rc::new(RefCell::new(ScannerImpl::new(l.scanner.modes)));
    TokenStream::new_with_skip_tokens(input, "input.txt", scanner_impl, l.scanner.match_fn, k, l.skip_by_state)
}

/// Parse `input` with the loaded parser.  `work_limit` bounds builder and action calls.
pub fn run(l: &Loaded, input: &str, o: &RunOpts, work_limit: usize) -> Run {
    let mut builder = RecBuilder::new(work_limit);
    let mut rec = Recorder { trace: Trace::default(), calls: 0, limit: work_limit };
    let r = guard(|| -> Result<(), ParolError> {
        if let Some((dfas, prods)) = l.ll {
            let k = o.k.unwrap_or(l.tables.max_k.unwrap_or(1));
            let stream = new_stream(l, input, k)?;
            let mut p = LLKParser::new(l.tables.start_index, dfas, prods, l.terminal_names, l.non_terminals);
            if o.trim {
                p.trim_parse_tree();
            }
            if !o.recovery {
                p.disable_recovery();
            }
            if let Some(d) = o.max_depth {
                p.set_max_parsing_depth(d);
            }
            p.parse_into(&mut builder, stream, &mut rec)
        } else {
            let (table, prods) = l.lr.unwrap();
            let stream = new_stream(l, input, o.k.unwrap_or(1))?;
            let mut p = LRParser::new(l.tables.start_index, table, prods, l.terminal_names, l.non_terminals);
            if o.trim {
                p.trim_parse_tree();
            }
            if let Some(d) = o.max_depth {
                p.set_max_parsing_depth(d);
            }
            p.parse_into(&mut builder, stream, &mut rec)
        }
    });
    let outcome = match r {
        Ok(Ok(())) => Outcome::Ok,
        Ok(Err(e)) => {
            if std::env::var("PV_SHOW_ERR").is_ok() {
                eprintln!("{e:#?}");
            }
            let (c, n) = classify_err(&e);
            if c == "WORKLIMIT" { Outcome::WorkLimit } else { Outcome::Err(c, n) }
        }
        Err(p) => Outcome::Panic(p),
    };
    let unbalanced = builder.unbalanced;
    let builder_calls = builder.calls;
    let tree = if outcome.is_ok() { builder.root.take() } else { None };
    Run { outcome, trace: rec.trace, tree, builder_calls, action_calls: rec.calls, unbalanced }
}

/// Drains the token stream through its public API (the way both parsers do), returning every
/// token in order, skip tokens included.  Stops after the first EOI.
pub fn drain(l: &Loaded, input: &str, k: usize) -> Result<Vec<Tok>, String> {
    let r = guard(|| -> Result<Vec<Tok>, String> {
        let mut s = new_stream(l, input, k).map_err(|e| e.to_string())?;
        let mut out = vec![];
        let mut guard_count = 0usize;
        loop {
            guard_count += 1;
            if guard_count > 4 * input.len() + 64 {
                return Err("drain does not terminate".into());
            }
            for t in s.take_skip_tokens() {
                out.push(Tok::from(&t));
            }
            let t = s.lookahead(0).map_err(|e| e.to_string())?;
            if t.token_type == 0 {
                out.push(Tok::from(&t));
                break;
            }
            let t = s.consume().map_err(|e| e.to_string())?;
            out.push(Tok::from(&t));
        }
        Ok(out)
    });
    match r {
        Ok(v) => v,
        Err(p) => Err(format!("PANIC {p}")),
    }
}

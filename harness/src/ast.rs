//! Generator-side grammar AST ("the grammar as the user wrote it") and its PAR printer.
//! Every oracle works on this AST, never on parol's reading of the printed text.

use serde::{Deserialize, Serialize};
use std::collections::{BTreeMap, BTreeSet};

#[derive(Clone, Copy, Debug, Serialize, Deserialize, PartialEq, Eq, Hash, PartialOrd, Ord)]
pub enum Quote {
    /// '..'  raw string, regex meta characters are escaped by parol
    Raw,
    /// ".."  legacy string, a regex
    Str,
    /// /../  regex
    Rx,
}

impl Quote {
    pub fn delim(self) -> char {
        match self {
            Quote::Raw => '\'',
            Quote::Str => '"',
            Quote::Rx => '/',
        }
    }
    /// true iff the literal is interpreted as a regex
    pub fn is_regex(self) -> bool {
        !matches!(self, Quote::Raw)
    }
}

/// A literal as written between its delimiters
#[derive(Clone, Debug, Serialize, Deserialize, PartialEq, Eq, Hash, PartialOrd, Ord)]
pub struct Lit {
    pub text: String,
    pub quote: Quote,
}

impl Lit {
    pub fn raw(t: &str) -> Self {
        Lit { text: t.to_string(), quote: Quote::Raw }
    }
    pub fn print(&self) -> String {
        let d = self.quote.delim();
        format!("{d}{}{d}", self.text)
    }
}

/// A terminal occurrence's definition.  `sample` is a text the terminal matches (for `simple`
/// terminals the only one); it is what the input renderer writes for this terminal.
#[derive(Clone, Debug, Serialize, Deserialize, PartialEq, Eq, Hash, PartialOrd, Ord)]
pub struct Term {
    pub lit: Lit,
    /// (is_positive, pattern)
    pub lookahead: Option<(bool, Lit)>,
    pub sample: String,
}

impl Term {
    pub fn simple(t: &str) -> Self {
        Term { lit: Lit::raw(t), lookahead: None, sample: t.to_string() }
    }
    pub fn print(&self) -> String {
        let mut s = self.lit.print();
        if let Some((pos, l)) = &self.lookahead {
            s.push_str(if *pos { " ?= " } else { " ?! " });
            s.push_str(&l.print());
        }
        s
    }
    /// parol's identity of a terminal: text, raw-vs-regex behaviour, lookahead
    pub fn identity(&self) -> (String, bool, Option<(bool, String, bool)>) {
        (
            self.lit.text.clone(),
            self.lit.quote.is_regex(),
            self.lookahead.as_ref().map(|(p, l)| (*p, l.text.clone(), l.quote.is_regex())),
        )
    }
}

#[derive(Clone, Debug, Default, Serialize, Deserialize, PartialEq, Eq, Hash)]
pub struct Ann {
    pub clip: bool,
    pub member: Option<String>,
    pub utype: Option<String>,
}

impl Ann {
    pub fn print(&self) -> String {
        let mut s = String::new();
        if self.clip {
            s.push('^');
        }
        if let Some(m) = &self.member {
            s.push('@');
            s.push_str(m);
        }
        if let Some(u) = &self.utype {
            s.push_str(" : ");
            s.push_str(u);
        }
        s
    }
    pub fn is_none(&self) -> bool {
        !self.clip && self.member.is_none() && self.utype.is_none()
    }
}

#[derive(Clone, Debug, Serialize, Deserialize, PartialEq, Eq, Hash)]
pub enum Factor {
    T { term: Term, states: Vec<String>, ann: Ann },
    N { name: String, ann: Ann },
    Group(Alts),
    Opt(Alts),
    Rep(Alts),
}

pub type Alt = Vec<Factor>;
pub type Alts = Vec<Alt>;

impl Factor {
    pub fn t(s: &str) -> Factor {
        Factor::T { term: Term::simple(s), states: vec![], ann: Ann::default() }
    }
    pub fn term(t: Term) -> Factor {
        Factor::T { term: t, states: vec![], ann: Ann::default() }
    }
    pub fn n(s: &str) -> Factor {
        Factor::N { name: s.to_string(), ann: Ann::default() }
    }
}

#[derive(Clone, Debug, Serialize, Deserialize, PartialEq, Eq, Hash)]
pub struct Prod {
    pub lhs: String,
    pub alts: Alts,
}

#[derive(Clone, Debug, Serialize, Deserialize, PartialEq, Eq, Hash)]
pub enum Switch {
    Enter(String),
    Push(String),
    Pop,
}

#[derive(Clone, Debug, Default, Serialize, Deserialize, PartialEq, Eq, Hash)]
pub struct ScannerDecl {
    pub name: String,
    pub line_comments: Vec<Lit>,
    pub block_comments: Vec<(Lit, Lit)>,
    pub auto_newline_off: bool,
    pub auto_ws_off: bool,
    pub allow_unmatched: bool,
    /// primary non-terminal names
    pub skip: Vec<String>,
    /// (primary non-terminal names, switch)
    pub on: Vec<(Vec<String>, Switch)>,
}

#[derive(Clone, Copy, Debug, Serialize, Deserialize, PartialEq, Eq, Hash)]
pub enum GType {
    LL,
    LALR,
}

#[derive(Clone, Debug, Serialize, Deserialize, PartialEq, Eq, Hash)]
pub struct Grammar {
    pub start: String,
    pub title: Option<String>,
    pub comment: Option<String>,
    pub gtype: Option<GType>,
    pub user_types: Vec<(String, String)>,
    pub nt_types: Vec<(String, String)>,
    pub t_type: Option<String>,
    /// scanner directives of the INITIAL scanner (name is "INITIAL")
    pub initial: ScannerDecl,
    pub scanners: Vec<ScannerDecl>,
    pub prods: Vec<Prod>,
}

impl Grammar {
    pub fn new(start: &str, prods: Vec<Prod>) -> Self {
        Grammar {
            start: start.to_string(),
            title: None,
            comment: None,
            gtype: None,
            user_types: vec![],
            nt_types: vec![],
            t_type: None,
            initial: ScannerDecl { name: "INITIAL".into(), ..Default::default() },
            scanners: vec![],
            prods,
        }
    }

    pub fn is_lr(&self) -> bool {
        self.gtype == Some(GType::LALR)
    }

    pub fn print(&self) -> String {
        let mut s = String::new();
        s.push_str(&format!("%start {}\n", self.start));
        if let Some(t) = &self.title {
            s.push_str(&format!("%title \"{t}\"\n"));
        }
        if let Some(t) = &self.comment {
            s.push_str(&format!("%comment \"{t}\"\n"));
        }
        match self.gtype {
            Some(GType::LL) => s.push_str("%grammar_type 'll(k)'\n"),
            Some(GType::LALR) => s.push_str("%grammar_type 'lalr(1)'\n"),
            None => {}
        }
        for (a, t) in &self.user_types {
            s.push_str(&format!("%user_type {a} = {t}\n"));
        }
        for (a, t) in &self.nt_types {
            s.push_str(&format!("%nt_type {a} = {t}\n"));
        }
        if let Some(t) = &self.t_type {
            s.push_str(&format!("%t_type {t}\n"));
        }
        print_scanner_directives(&self.initial, "", &mut s);
        for sc in &self.scanners {
            s.push_str(&format!("\n%scanner {} {{\n", sc.name));
            print_scanner_directives(sc, "    ", &mut s);
            s.push_str("}\n");
        }
        s.push_str("\n%%\n\n");
        for p in &self.prods {
            s.push_str(&p.lhs);
            s.push_str("\n    : ");
            s.push_str(&print_alts(&p.alts, "\n    | "));
            s.push_str("\n    ;\n\n");
        }
        s
    }

    /// all distinct non-terminal names on left-hand sides, in order of first definition
    pub fn nts(&self) -> Vec<String> {
        let mut v: Vec<String> = vec![];
        for p in &self.prods {
            if !v.contains(&p.lhs) {
                v.push(p.lhs.clone());
            }
        }
        v
    }

    /// all distinct terminals (by parol identity) in order of textual occurrence
    pub fn terms(&self) -> Vec<Term> {
        let mut v: Vec<Term> = vec![];
        for p in &self.prods {
            collect_terms(&p.alts, &mut v);
        }
        v
    }

    /// merged alternatives per non-terminal
    pub fn alts_of(&self) -> BTreeMap<String, Alts> {
        let mut m: BTreeMap<String, Alts> = BTreeMap::new();
        for p in &self.prods {
            m.entry(p.lhs.clone()).or_default().extend(p.alts.iter().cloned());
        }
        m
    }

    pub fn used_names(&self) -> BTreeSet<String> {
        let mut s = BTreeSet::new();
        for p in &self.prods {
            s.insert(p.lhs.clone());
            collect_nt_names(&p.alts, &mut s);
        }
        s
    }

    pub fn count_constructs(&self) -> usize {
        fn c(a: &Alts) -> usize {
            a.iter()
                .flat_map(|x| x.iter())
                .map(|f| match f {
                    Factor::Group(a) | Factor::Opt(a) | Factor::Rep(a) => 1 + c(a),
                    _ => 0,
                })
                .sum()
        }
        self.prods.iter().map(|p| c(&p.alts)).sum()
    }

    pub fn max_nesting(&self) -> usize {
        fn d(a: &Alts) -> usize {
            a.iter()
                .flat_map(|x| x.iter())
                .map(|f| match f {
                    Factor::Group(a) | Factor::Opt(a) | Factor::Rep(a) => 1 + d(a),
                    _ => 0,
                })
                .max()
                .unwrap_or(0)
        }
        self.prods.iter().map(|p| d(&p.alts)).max().unwrap_or(0)
    }
}

fn print_scanner_directives(sc: &ScannerDecl, ind: &str, s: &mut String) {
    for l in &sc.line_comments {
        s.push_str(&format!("{ind}%line_comment {}\n", l.print()));
    }
    for (a, b) in &sc.block_comments {
        s.push_str(&format!("{ind}%block_comment {} {}\n", a.print(), b.print()));
    }
    if sc.auto_newline_off {
        s.push_str(&format!("{ind}%auto_newline_off\n"));
    }
    if sc.auto_ws_off {
        s.push_str(&format!("{ind}%auto_ws_off\n"));
    }
    if sc.allow_unmatched {
        s.push_str(&format!("{ind}%allow_unmatched\n"));
    }
    if !sc.skip.is_empty() {
        s.push_str(&format!("{ind}%skip {}\n", sc.skip.join(", ")));
    }
    for (toks, sw) in &sc.on {
        let sw = match sw {
            Switch::Enter(n) => format!("%enter {n}"),
            Switch::Push(n) => format!("%push {n}"),
            Switch::Pop => "%pop".to_string(),
        };
        s.push_str(&format!("{ind}%on {} {sw}\n", toks.join(", ")));
    }
}

pub fn print_alts(a: &Alts, sep: &str) -> String {
    a.iter().map(|x| print_alt(x)).collect::<Vec<_>>().join(sep)
}

pub fn print_alt(a: &Alt) -> String {
    a.iter().map(print_factor).collect::<Vec<_>>().join(" ")
}

pub fn print_factor(f: &Factor) -> String {
    match f {
        Factor::T { term, states, ann } => {
            let st = if states.is_empty() { String::new() } else { format!("<{}>", states.join(", ")) };
            format!("{st}{}{}", term.print(), ann.print())
        }
        Factor::N { name, ann } => format!("{name}{}", ann.print()),
        Factor::Group(a) => format!("( {} )", print_alts(a, " | ")),
        Factor::Opt(a) => format!("[ {} ]", print_alts(a, " | ")),
        Factor::Rep(a) => format!("{{ {} }}", print_alts(a, " | ")),
    }
}

fn collect_terms(a: &Alts, v: &mut Vec<Term>) {
    for alt in a {
        for f in alt {
            match f {
                Factor::T { term, .. } => {
                    if !v.iter().any(|t| t.identity() == term.identity()) {
                        v.push(term.clone());
                    }
                }
                Factor::N { .. } => {}
                Factor::Group(a) | Factor::Opt(a) | Factor::Rep(a) => collect_terms(a, v),
            }
        }
    }
}

fn collect_nt_names(a: &Alts, s: &mut BTreeSet<String>) {
    for alt in a {
        for f in alt {
            match f {
                Factor::N { name, .. } => {
                    s.insert(name.clone());
                }
                Factor::T { .. } => {}
                Factor::Group(a) | Factor::Opt(a) | Factor::Rep(a) => collect_nt_names(a, s),
            }
        }
    }
}

/// A grammar "compiled" for the oracles: terminals and non-terminals as indices.
#[derive(Clone, Debug)]
pub struct IGrammar {
    pub start: usize,
    pub nts: Vec<String>,
    pub terms: Vec<Term>,
    /// per non-terminal: its alternatives
    pub rules: Vec<IAlts>,
    /// non-terminals referenced but not defined
    pub undefined: Vec<String>,
}

#[derive(Clone, Debug, PartialEq, Eq, Hash, PartialOrd, Ord)]
pub enum IFactor {
    T(usize),
    N(usize),
    Group(IAlts),
    Opt(IAlts),
    Rep(IAlts),
}
pub type IAlt = Vec<IFactor>;
pub type IAlts = Vec<IAlt>;

impl IGrammar {
    pub fn from(g: &Grammar) -> IGrammar {
        let mut nts = g.nts();
        let terms = g.terms();
        let amap = g.alts_of();
        // undefined non-terminals get an entry with no alternatives (empty language)
        let mut undefined = vec![];
        for n in g.used_names() {
            if !nts.contains(&n) {
                undefined.push(n.clone());
                nts.push(n);
            }
        }
        let rules = nts
            .iter()
            .map(|n| amap.get(n).map(|a| conv_alts(a, &nts, &terms)).unwrap_or_default())
            .collect();
        let start = nts.iter().position(|n| *n == g.start).unwrap_or(usize::MAX);
        IGrammar { start, nts, terms, rules, undefined }
    }

    pub fn is_plain(&self) -> bool {
        self.rules.iter().all(|a| {
            a.iter().all(|alt| alt.iter().all(|f| matches!(f, IFactor::T(_) | IFactor::N(_))))
        })
    }
}

fn conv_alts(a: &Alts, nts: &[String], terms: &[Term]) -> IAlts {
    a.iter()
        .map(|alt| {
            alt.iter()
                .map(|f| match f {
                    Factor::T { term, .. } => IFactor::T(
                        terms.iter().position(|t| t.identity() == term.identity()).unwrap(),
                    ),
                    Factor::N { name, .. } => IFactor::N(nts.iter().position(|n| n == name).unwrap()),
                    Factor::Group(a) => IFactor::Group(conv_alts(a, nts, terms)),
                    Factor::Opt(a) => IFactor::Opt(conv_alts(a, nts, terms)),
                    Factor::Rep(a) => IFactor::Rep(conv_alts(a, nts, terms)),
                })
                .collect()
        })
        .collect()
}

mod ast;
mod cfgconv;
mod chart;
mod dbgparse;
mod deriv;
mod gencrate;
mod engine;
mod ffref;
mod gens;
mod interp;
mod lalr_ref;
mod loader;
mod lsdrv;
mod pipeline;
mod props;
mod rx;
#[macro_use]
mod util;

use engine::{drive, replay, seed_from_env, tier_from};

fn usage() -> ! {
    eprintln!("usage: pv <ID> [quick|thorough] | pv <ID> --replay <file> | pv show <grammar.par> <input>");
    std::process::exit(2)
}

macro_rules! dispatch {
    ($id:expr, $args:expr, $( $name:literal => $chk:expr ),* $(,)?) => {
        match $id {
            $( $name => {
                let c = $chk;
                if $args.get(2).map(|s| s.as_str()) == Some("--replay") {
                    let Some(p) = $args.get(3) else { usage() };
                    replay(&c, p)
                } else {
                    drive(&c, tier_from($args.get(2).map(|s| s.as_str())), seed_from_env())
                }
            } )*
            _ => usage(),
        }
    };
}

fn main() {
    let args: Vec<String> = std::env::args().collect();
    let Some(id) = args.get(1) else { usage() };
    util::capture_stdout();
    if id == "show" {
        show(&args[2], &args[3]);
        return;
    }
    if id == "gen" {
        // pv gen g.par outdir : writes parser.rs and grammar_trait.rs
        let text = std::fs::read_to_string(&args[2]).unwrap();
        let o = pipeline::Opts::default();
        match pipeline::build(&text, &o).and_then(|b| pipeline::trait_source(&b, &o).map(|t| (b, t))) {
            Ok((b, (t, _))) => {
                std::fs::create_dir_all(&args[3]).unwrap();
                std::fs::write(format!("{}/parser.rs", args[3]), &b.parser_src).unwrap();
                std::fs::write(format!("{}/grammar_trait.rs", args[3]), &t).unwrap();
            }
            Err(e) => crate::out!("{e:?}"),
        }
        return;
    }
    // global watchdog: a run that exceeds its budget is inconclusive (exit 2), never a violation
    let limit: u64 = std::env::var("PV_WATCHDOG_S").ok().and_then(|s| s.parse().ok()).unwrap_or(
        if tier_from(args.get(2).map(|s| s.as_str())) == engine::Tier::Thorough { 4 * 3600 } else { 1500 },
    );
    let idc = id.clone();
    let tier_name = if args.get(2).map(|s| s.as_str()) == Some("--replay") { "replay" } else { tier_from(args.get(2).map(|s| s.as_str())).name() };
    // SAFETY: no other thread exists yet
    unsafe { std::env::set_var("VERIF_TIER_EFFECTIVE", tier_name) };
    std::thread::spawn(move || {
        std::thread::sleep(std::time::Duration::from_secs(limit));
        crate::out!("HARNESS-ERROR property={idc}: watchdog after {limit}s (inconclusive)");
        std::process::exit(2);
    });
    let code = dispatch!(id.as_str(), args,
        "C01" => props::c01::C01,
        "C02" => props::c02::C02,
        "C03" => props::c03::C03,
        "C04" => props::c04::C04,
        "C05" => props::c05::C05,
        "C06" => props::c06::C06,
        "C07" => props::c07::C07,
        "C08" => props::c07::C08,
        "C09" => props::trans::C09,
        "C10" => props::trans::C10,
        "C11" => props::trans::C11,
        "C12" => props::trans::C12,
        "C13" => props::c13::C13,
        "C14" => props::c14::C14,
        "C15" => props::c15::C15,
        "C16" => props::c15::C16,
        "C17" => props::c17::C17,
        "C18" => props::c18::C18,
        "C19" => props::runtime::C19,
        "C20" => props::runtime::C20,
        "C21" => props::runtime::C21,
        "C24" => props::gen_props::C24,
        "C25" => props::gen_props::C25,
        "C26" => props::gen_props::C26,
        "C33" => props::gen_props::C33,
        "C27" => props::ls::C27,
        "C28" => props::ls::C28,
        "C29" => props::ls::C29,
        "C30" => props::ls::C30,
        "C34" => props::ls::C34,
        "C22" => props::astprops::C22,
        "C23" => props::astprops::C23,
        "C31" => props::small::C31,
        "C32" => props::small::C32,
    );
    std::process::exit(code);
}

fn show(g: &str, input: &str) {
    let text = std::fs::read_to_string(g).unwrap();
    let b = match pipeline::build(&text, &pipeline::Opts::default()) {
        Ok(b) => b,
        Err(e) => {
            crate::out!("{e:?}");
            return;
        }
    };
    let l = match loader::load(&b.parser_src) {
        Ok(l) => l,
        Err(e) => {
            crate::out!("LOAD ERR {e}\n{}", b.parser_src);
            return;
        }
    };
    crate::out!("{:?}", l.tables.modes);
    let r = interp::run(&l, input, &interp::RunOpts::default(), 100000);
    crate::out!("{:?}\n{:?}\n{:?}", r.outcome, r.trace, r.tree);
    crate::out!("{:?}", interp::drain(&l, input, 1));
}

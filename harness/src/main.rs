mod ast;
mod chart;
mod interp;
mod loader;
mod pipeline;
mod util;

fn main() {
    let g = std::env::args().nth(1).unwrap();
    let input = std::env::args().nth(2).unwrap();
    let text = std::fs::read_to_string(&g).unwrap();
    let b = match pipeline::build(&text, &pipeline::Opts::default()) {
        Ok(b) => b,
        Err(e) => {
            println!("{e:?}");
            return;
        }
    };
    let l = match loader::load(&b.parser_src) { Ok(l) => l, Err(e) => { println!("LOAD ERR {e}"); println!("{}", b.parser_src); return; } };
    println!("{:?}", l.tables.modes);
    let r = interp::run(&l, &input, &interp::RunOpts::default(), 100000);
    println!("{:?}\n{:?}\n{:?}", r.outcome, r.trace, r.tree);
    println!("{:?}", interp::drain(&l, &input, 1));
}

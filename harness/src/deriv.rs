//! Reference derivation of an input over the user's EBNF grammar, reduced to the events the typed
//! AST has to show: non-clipped tokens, presence of optional parts, lengths of repetitions, in
//! grammar order.  Written from the EBNF semantics; shares no code with parol.  All derivations
//! are enumerated (capped at two) so that ambiguous sentences are recognised and left out.

use crate::ast::*;
use crate::chart::Chart;
use std::collections::{BTreeMap, HashMap, HashSet};

#[derive(Debug, Clone, PartialEq, Eq)]
pub enum XEv {
    /// index of the input token
    Tok(usize),
    Some_,
    None_,
    Vec(usize),
}

#[derive(Debug, Clone, Default)]
pub struct Deriv {
    pub events: Vec<XEv>,
    /// instances of the start symbol in the derivation (root included)
    pub start_instances: usize,
    /// counters for the non-triviality rule
    pub opt_some: usize,
    pub opt_none: usize,
    pub max_rep: usize,
    pub clipped: usize,
}

pub enum Found {
    Unique(Deriv),
    NoDerivation,
    Ambiguous,
    /// the search exceeded its work budget (nothing is concluded for this input)
    TooComplex,
}

/// bound on the number of search steps per input
const WORK_LIMIT: u64 = 400_000;

struct Ctx<'a> {
    g: &'a Grammar,
    ig: &'a IGrammar,
    rules: BTreeMap<&'a str, &'a Alts>,
    ids: &'a [usize],
    chart: Chart<'a>,
    memo: HashMap<(usize, usize, usize), Vec<Deriv>>,
    active: HashSet<(usize, usize, usize)>,
    cyclic: bool,
    cuts: u64,
    work: u64,
}

const CAP: usize = 2;

fn cat(a: &Deriv, b: &Deriv) -> Deriv {
    let mut events = a.events.clone();
    events.extend(b.events.iter().cloned());
    Deriv {
        events,
        start_instances: a.start_instances + b.start_instances,
        opt_some: a.opt_some + b.opt_some,
        opt_none: a.opt_none + b.opt_none,
        max_rep: a.max_rep.max(b.max_rep),
        clipped: a.clipped + b.clipped,
    }
}

impl<'a> Ctx<'a> {
    fn alts(&mut self, a: &'a Alts, i: usize, j: usize) -> Vec<Deriv> {
        let key = (a as *const Alts as usize, i, j);
        if let Some(r) = self.memo.get(&key) {
            return r.clone();
        }
        if !self.active.insert(key) {
            // the same construct over the same span inside itself: only a cyclic grammar
            // (A =>+ A, excluded by the caller) has derivations through here
            self.cuts += 1;
            return vec![];
        }
        let cuts0 = self.cuts;
        let mut r = vec![];
        for alt in a {
            let d = self.seq(alt, 0, i, j);
            r.extend(d);
            if r.len() >= CAP {
                break;
            }
        }
        r.truncate(CAP);
        self.active.remove(&key);
        // a result computed below a cut may be incomplete for other contexts
        if self.cuts == cuts0 || self.active.is_empty() {
            self.memo.insert(key, r.clone());
        }
        r
    }

    fn seq(&mut self, alt: &'a Alt, idx: usize, i: usize, j: usize) -> Vec<Deriv> {
        self.work += 1;
        if self.work > WORK_LIMIT {
            return vec![];
        }
        if idx == alt.len() {
            return if i == j { vec![Deriv::default()] } else { vec![] };
        }
        let mut r = vec![];
        let last = idx + 1 == alt.len();
        let ks: Vec<usize> = if last { vec![j] } else { (i..=j).collect() };
        for k in ks {
            // the rest first: with left recursion (`A: A 'x'`) the recursive occurrence is then only
            // asked for spans the rest leaves over, never for the whole span again
            let right = self.seq(alt, idx + 1, k, j);
            if right.is_empty() {
                continue;
            }
            let left = self.factor(&alt[idx], i, k);
            if left.is_empty() {
                continue;
            }
            for l in &left {
                for rr in &right {
                    r.push(cat(l, rr));
                    if r.len() >= CAP {
                        return r;
                    }
                }
            }
        }
        r
    }

    fn factor(&mut self, f: &'a Factor, i: usize, j: usize) -> Vec<Deriv> {
        match f {
            Factor::T { term, ann, .. } => {
                let id = self.ig.terms.iter().position(|t| t.identity() == term.identity()).unwrap_or(usize::MAX - 1);
                if j == i + 1 && self.ids[i] == id {
                    let mut d = Deriv::default();
                    if ann.clip {
                        d.clipped = 1;
                    } else {
                        d.events.push(XEv::Tok(i));
                    }
                    vec![d]
                } else {
                    vec![]
                }
            }
            Factor::N { name, ann } => {
                let Some(nt) = self.ig.nts.iter().position(|n| n == name) else { return vec![] };
                if !self.chart.derives(nt, i, j) {
                    return vec![];
                }
                let Some(a) = self.rules.get(name.as_str()).copied() else { return vec![] };
                let mut r = self.alts(a, i, j);
                for d in r.iter_mut() {
                    if *name == self.g.start {
                        d.start_instances += 1;
                    }
                    if ann.clip {
                        d.events.clear();
                        d.clipped += 1;
                    }
                }
                r
            }
            Factor::Group(a) => self.alts(a, i, j),
            Factor::Opt(a) => {
                let mut r = vec![];
                if i == j {
                    r.push(Deriv { events: vec![XEv::None_], opt_none: 1, ..Default::default() });
                }
                for d in self.alts(a, i, j) {
                    let mut e = Deriv { events: vec![XEv::Some_], opt_some: 1, ..Default::default() };
                    e = cat(&e, &d);
                    r.push(e);
                }
                r.truncate(CAP);
                r
            }
            Factor::Rep(a) => {
                let items = self.rep(a, i, j);
                items
                    .into_iter()
                    .map(|(n, d)| {
                        let mut e = Deriv { events: vec![XEv::Vec(n)], max_rep: n, ..Default::default() };
                        e = cat(&e, &d);
                        e.max_rep = e.max_rep.max(n);
                        e
                    })
                    .collect()
            }
        }
    }

    /// all ways to split i..j into items of the repetition body: (item count, concatenated events)
    fn rep(&mut self, a: &'a Alts, i: usize, j: usize) -> Vec<(usize, Deriv)> {
        self.work += 1;
        if self.work > WORK_LIMIT {
            return vec![];
        }
        let mut r = vec![];
        if i == j {
            r.push((0, Deriv::default()));
            // an empty item would make the count arbitrary
            if !self.alts(a, i, i).is_empty() {
                self.cyclic = true;
            }
            return r;
        }
        for k in i + 1..=j {
            let first = self.alts(a, i, k);
            if first.is_empty() {
                continue;
            }
            let rest = self.rep(a, k, j);
            for f in &first {
                for (n, d) in &rest {
                    r.push((n + 1, cat(f, d)));
                    if r.len() >= CAP {
                        return r;
                    }
                }
            }
        }
        r
    }
}

/// `ids`: the input as indices into `g.terms()`.  Precondition: the grammar is not cyclic (no
/// non-terminal derives itself); cyclic grammars have infinitely many derivations.
pub fn derive(g: &Grammar, ig: &IGrammar, ids: &[usize]) -> Found {
    if ig.start == usize::MAX || ids.len() >= 60 {
        return Found::NoDerivation;
    }
    let chart = Chart::new(ig, ids);
    if !chart.accepts() {
        return Found::NoDerivation;
    }
    let mut rules: BTreeMap<&str, &Alts> = BTreeMap::new();
    // several productions with the same lhs are alternatives of one rule: merged by the caller
    for p in &g.prods {
        rules.entry(p.lhs.as_str()).or_insert(&p.alts);
    }
    let mut c = Ctx { g, ig, rules, ids, chart, memo: HashMap::new(), active: HashSet::new(), cyclic: false, cuts: 0, work: 0 };
    let Some(a) = c.rules.get(g.start.as_str()).copied() else { return Found::NoDerivation };
    let mut r = c.alts(a, 0, ids.len());
    if c.work > WORK_LIMIT {
        return Found::TooComplex;
    }
    if c.cyclic || r.len() > 1 {
        return Found::Ambiguous;
    }
    match r.pop() {
        Some(mut d) => {
            d.start_instances += 1;
            Found::Unique(d)
        }
        None => Found::NoDerivation,
    }
}

/// true when every non-terminal is defined by exactly one `Prod` (the derivation finder's view)
pub fn single_rule_per_nt(g: &Grammar) -> bool {
    let mut seen = HashSet::new();
    g.prods.iter().all(|p| seen.insert(p.lhs.as_str()))
}

#[cfg(test)]
mod tests {
    use super::*;

    #[test]
    fn events_of_a_small_grammar() {
        // S: 'a'^ [ 'b' ] { 'c' B } ; B: 'd' | 'e' S^ ;
        let mut clipped_a = Factor::t("a");
        if let Factor::T { ann, .. } = &mut clipped_a {
            ann.clip = true;
        }
        let mut clipped_s = Factor::n("S");
        if let Factor::N { ann, .. } = &mut clipped_s {
            ann.clip = true;
        }
        let g = Grammar::new(
            "S",
            vec![
                Prod { lhs: "S".into(), alts: vec![vec![clipped_a, Factor::Opt(vec![vec![Factor::t("b")]]), Factor::Rep(vec![vec![Factor::t("c"), Factor::n("B")]])]] },
                Prod { lhs: "B".into(), alts: vec![vec![Factor::t("d")], vec![Factor::t("e"), clipped_s]] },
            ],
        );
        let ig = IGrammar::from(&g);
        let id = |s: &str| ig.terms.iter().position(|t| t.lit.text == s).unwrap();
        let w: Vec<usize> = ["a", "c", "d", "c", "e", "a", "b"].iter().map(|s| id(s)).collect();
        match derive(&g, &ig, &w) {
            Found::Unique(d) => {
                assert_eq!(d.events, vec![XEv::None_, XEv::Vec(2), XEv::Tok(1), XEv::Tok(2), XEv::Tok(3), XEv::Tok(4)]);
                assert_eq!(d.start_instances, 2);
            }
            _ => panic!("expected a unique derivation"),
        }
    }
}

//! Reference LALR(1) test: canonical LR(1) item sets, merged by LR(0) core; a grammar is LALR(1)
//! iff no merged state has two actions on one terminal.  Textbook construction, no parol code.

use crate::ffref::{BSym, Bnf, EOI, Set, TooBig, first_k};
use std::collections::{BTreeMap, BTreeSet};

#[derive(Clone, Copy, Debug, PartialEq, Eq, PartialOrd, Ord, Hash)]
struct Item {
    prod: usize,
    dot: usize,
    la: u16,
}

#[derive(Clone, Debug, PartialEq, Eq)]
pub enum Conflict {
    ShiftReduce { state: usize, term: u16, prod: usize },
    ReduceReduce { state: usize, term: u16, p1: usize, p2: usize },
}

pub struct LalrResult {
    pub conflicts: Vec<Conflict>,
    pub lr1_states: usize,
    pub lalr_states: usize,
    /// conflicts that already exist in the canonical LR(1) automaton (the grammar is not LR(1))
    pub lr1_conflicts: usize,
}

/// `g` is the user's grammar; an augmented start production S' -> S is added here
pub fn analyse(g: &Bnf, max_states: usize) -> Result<LalrResult, TooBig> {
    // productions with the augmented one at index 0 (prod usize::MAX is not used; shift indices by 1)
    let aug_nt = g.nts.len();
    let mut prods: Vec<(usize, Vec<BSym>)> = vec![(aug_nt, vec![BSym::N(g.start)])];
    prods.extend(g.prods.iter().cloned());
    let mut budget = 2_000_000i64;
    let (_, fnt) = first_k(g, 1, &mut budget)?;
    // FIRST_1 of a sequence followed by terminal a
    let first_seq = |seq: &[BSym], a: u16| -> BTreeSet<u16> {
        let mut out = BTreeSet::new();
        let mut nullable_prefix = true;
        for s in seq {
            match s {
                BSym::T(t) => {
                    out.insert(*t);
                    nullable_prefix = false;
                    break;
                }
                BSym::N(n) => {
                    let f: &Set = &fnt[*n];
                    let mut eps = false;
                    for w in f {
                        if w.is_empty() {
                            eps = true;
                        } else {
                            out.insert(w[0]);
                        }
                    }
                    if !eps {
                        nullable_prefix = false;
                        break;
                    }
                }
            }
        }
        if nullable_prefix {
            out.insert(a);
        }
        out
    };
    let by_lhs: BTreeMap<usize, Vec<usize>> = prods.iter().enumerate().fold(BTreeMap::new(), |mut m, (i, (l, _))| {
        m.entry(*l).or_insert_with(Vec::new).push(i);
        m
    });
    let closure = |kernel: BTreeSet<Item>| -> BTreeSet<Item> {
        let mut set = kernel.clone();
        let mut work: Vec<Item> = kernel.into_iter().collect();
        while let Some(it) = work.pop() {
            let rhs = &prods[it.prod].1;
            if let Some(BSym::N(b)) = rhs.get(it.dot) {
                let las = first_seq(&rhs[it.dot + 1..], it.la);
                for p in by_lhs.get(b).map(|v| v.as_slice()).unwrap_or(&[]) {
                    for la in &las {
                        let ni = Item { prod: *p, dot: 0, la: *la };
                        if set.insert(ni) {
                            work.push(ni);
                        }
                    }
                }
            }
        }
        set
    };
    let start = closure([Item { prod: 0, dot: 0, la: EOI }].into_iter().collect());
    let mut states: Vec<BTreeSet<Item>> = vec![start.clone()];
    let mut index: BTreeMap<BTreeSet<Item>, usize> = [(start, 0)].into_iter().collect();
    let mut i = 0;
    while i < states.len() {
        let st = states[i].clone();
        let mut by_sym: BTreeMap<BSym2, BTreeSet<Item>> = BTreeMap::new();
        for it in &st {
            if let Some(s) = prods[it.prod].1.get(it.dot) {
                by_sym.entry(BSym2::from(s)).or_default().insert(Item { prod: it.prod, dot: it.dot + 1, la: it.la });
            }
        }
        for (_, kernel) in by_sym {
            let c = closure(kernel);
            if !index.contains_key(&c) {
                index.insert(c.clone(), states.len());
                states.push(c);
                if states.len() > max_states {
                    return Err(TooBig);
                }
            }
        }
        i += 1;
    }
    let conflicts_of = |items: &BTreeSet<Item>, state: usize| -> Vec<Conflict> {
        let mut out = vec![];
        let mut shifts: BTreeSet<u16> = BTreeSet::new();
        let mut reduces: BTreeMap<u16, BTreeSet<usize>> = BTreeMap::new();
        for it in items {
            match prods[it.prod].1.get(it.dot) {
                Some(BSym::T(t)) => {
                    shifts.insert(*t);
                }
                Some(BSym::N(_)) => {}
                None => {
                    reduces.entry(it.la).or_default().insert(it.prod);
                }
            }
        }
        for (t, ps) in &reduces {
            if shifts.contains(t) {
                out.push(Conflict::ShiftReduce { state, term: *t, prod: *ps.iter().next().unwrap() });
            }
            if ps.len() > 1 {
                let v: Vec<usize> = ps.iter().copied().collect();
                out.push(Conflict::ReduceReduce { state, term: *t, p1: v[0], p2: v[1] });
            }
        }
        out
    };
    let lr1_conflicts = states.iter().enumerate().map(|(i, s)| conflicts_of(s, i).len()).sum();
    // merge by core
    let mut merged: BTreeMap<BTreeSet<(usize, usize)>, BTreeSet<Item>> = BTreeMap::new();
    for s in &states {
        let core: BTreeSet<(usize, usize)> = s.iter().map(|i| (i.prod, i.dot)).collect();
        merged.entry(core).or_default().extend(s.iter().copied());
    }
    let mut conflicts = vec![];
    for (i, (_, items)) in merged.iter().enumerate() {
        conflicts.extend(conflicts_of(items, i));
    }
    Ok(LalrResult { conflicts, lr1_states: states.len(), lalr_states: merged.len(), lr1_conflicts })
}

#[derive(Clone, Copy, Debug, PartialEq, Eq, PartialOrd, Ord)]
enum BSym2 {
    T(u16),
    N(usize),
}

impl BSym2 {
    fn from(s: &BSym) -> Self {
        match s {
            BSym::T(t) => BSym2::T(*t),
            BSym::N(n) => BSym2::N(*n),
        }
    }
}

#[cfg(test)]
mod tests {
    use super::*;

    fn bnf(nts: &[&str], prods: Vec<(usize, Vec<BSym>)>) -> Bnf {
        Bnf { nts: nts.iter().map(|s| s.to_string()).collect(), prods, start: 0, terms: vec![5, 6, 7, 8, 9] }
    }

    #[test]
    fn expression_grammar_is_lalr() {
        // E: E '+' T | T; T: 'n' | '(' E ')'
        let g = bnf(
            &["E", "T"],
            vec![
                (0, vec![BSym::N(0), BSym::T(5), BSym::N(1)]),
                (0, vec![BSym::N(1)]),
                (1, vec![BSym::T(6)]),
                (1, vec![BSym::T(7), BSym::N(0), BSym::T(8)]),
            ],
        );
        let r = analyse(&g, 5000).unwrap();
        assert!(r.conflicts.is_empty(), "{:?}", r.conflicts);
    }

    #[test]
    fn ambiguous_and_dangling_else() {
        // E: E '+' E | 'n'
        let g = bnf(&["E"], vec![(0, vec![BSym::N(0), BSym::T(5), BSym::N(0)]), (0, vec![BSym::T(6)])]);
        assert!(!analyse(&g, 5000).unwrap().conflicts.is_empty());
        // S: S | 'a'   (cyclic)
        let g = bnf(&["S"], vec![(0, vec![BSym::N(0)]), (0, vec![BSym::T(5)])]);
        assert!(!analyse(&g, 5000).unwrap().conflicts.is_empty());
    }

    #[test]
    fn lr1_but_not_lalr() {
        // S: 'a' A 'd' | 'b' B 'd' | 'a' B 'e' | 'b' A 'e'; A: 'c'; B: 'c'
        let g = bnf(
            &["S", "A", "B"],
            vec![
                (0, vec![BSym::T(5), BSym::N(1), BSym::T(8)]),
                (0, vec![BSym::T(6), BSym::N(2), BSym::T(8)]),
                (0, vec![BSym::T(5), BSym::N(2), BSym::T(9)]),
                (0, vec![BSym::T(6), BSym::N(1), BSym::T(9)]),
                (1, vec![BSym::T(7)]),
                (2, vec![BSym::T(7)]),
            ],
        );
        let r = analyse(&g, 5000).unwrap();
        assert_eq!(r.lr1_conflicts, 0);
        assert!(!r.conflicts.is_empty());
    }
}

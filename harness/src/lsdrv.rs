//! Client of the hooked parol-ls binary (`--cfg parol_verif`, env PAROL_LS_VERIF): one child
//! process per worker thread, JSON lines over stdio.

use serde_json::{Value, json};
use std::io::{BufRead, BufReader, Write};
use std::process::{Child, ChildStdin, ChildStdout, Command, Stdio};

pub struct Ls {
    child: Child,
    stdin: ChildStdin,
    stdout: BufReader<ChildStdout>,
}

pub fn ls_binary() -> String {
    std::env::var("PV_LS_BIN").unwrap_or_else(|_| "/verif/target-ls/debug/parol-ls".to_string())
}

impl Ls {
    pub fn spawn() -> Result<Ls, String> {
        let mut child = Command::new(ls_binary())
            .env("PAROL_LS_VERIF", "1")
            .stdin(Stdio::piped())
            .stdout(Stdio::piped())
            .stderr(Stdio::null())
            .spawn()
            .map_err(|e| format!("cannot start {}: {e}", ls_binary()))?;
        let stdin = child.stdin.take().unwrap();
        let stdout = BufReader::new(child.stdout.take().unwrap());
        Ok(Ls { child, stdin, stdout })
    }

    /// Err = the process died (abort, stack overflow) or the pipe broke
    pub fn call(&mut self, cmd: Value) -> Result<Value, String> {
        writeln!(self.stdin, "{cmd}").map_err(|e| format!("write: {e}"))?;
        self.stdin.flush().map_err(|e| format!("flush: {e}"))?;
        // parol prints resolved LALR conflicts with println! from the analysis threads; the
        // driver's answers are the lines that are JSON objects
        loop {
            let mut line = String::new();
            let n = self.stdout.read_line(&mut line).map_err(|e| format!("read: {e}"))?;
            if n == 0 {
                let status = self.child.wait().map(|s| s.to_string()).unwrap_or_default();
                return Err(format!("language server process ended ({status})"));
            }
            if line.starts_with('{') {
                if let Ok(v) = serde_json::from_str::<Value>(&line) {
                    return Ok(v);
                }
            }
        }
    }
}

impl Drop for Ls {
    fn drop(&mut self) {
        let _ = writeln!(self.stdin, "{}", json!({"cmd": "quit"}));
        let _ = self.child.kill();
        let _ = self.child.wait();
    }
}

thread_local! {
    static LS: std::cell::RefCell<Option<Ls>> = const { std::cell::RefCell::new(None) };
}

/// Runs `f` with this thread's language server process (started on demand, restarted after a crash)
pub fn with_ls<T>(f: impl FnOnce(&mut Ls) -> Result<T, String>) -> Result<T, String> {
    LS.with(|cell| {
        let mut slot = cell.borrow_mut();
        if slot.is_none() {
            *slot = Some(Ls::spawn()?);
        }
        let r = f(slot.as_mut().unwrap());
        if r.is_err() {
            *slot = None;
        }
        r
    })
}

//! The campaign driver: sharded proptest runners, statistics, evidence, replay files,
//! known-findings matching.

use proptest::strategy::{BoxedStrategy, Strategy};
use proptest::test_runner::{Config, RngAlgorithm, RngSeed, TestCaseError, TestError, TestRunner};
use serde::Serialize;
use serde::de::DeserializeOwned;
use serde_json::{Value, json};
use std::collections::{BTreeMap, BTreeSet};
use std::sync::Mutex;
use std::sync::atomic::{AtomicBool, Ordering};
use std::time::Instant;

#[derive(Clone, Copy, Debug, PartialEq, Eq)]
pub enum Tier {
    Quick,
    Thorough,
}

impl Tier {
    pub fn name(self) -> &'static str {
        match self {
            Tier::Quick => "quick",
            Tier::Thorough => "thorough",
        }
    }
    pub fn pick<T>(self, q: T, t: T) -> T {
        match self {
            Tier::Quick => q,
            Tier::Thorough => t,
        }
    }
}

/// What a check says about one case
#[derive(Debug, Clone)]
pub enum Verdict {
    Pass,
    /// the case was outside the property's domain (counted by reason)
    Skip(String),
    /// (signature, human readable message); the signature is matched against known_findings.json
    Fail(String, String),
    /// harness / oracle inconsistency: exit 2
    Broken(String),
}

#[derive(Default)]
pub struct Stats {
    pub evaluations: u64,
    pub classes: BTreeMap<String, u64>,
    pub nontrivial: BTreeSet<u64>,
    pub samples: Vec<Value>,
    pub skipped: BTreeMap<String, u64>,
    pub known: BTreeMap<String, (u64, String)>,
    pub extra: BTreeMap<String, u64>,
    frozen: bool,
}

impl Stats {
    pub fn class(&mut self, c: &str) {
        if !self.frozen {
            *self.classes.entry(c.to_string()).or_default() += 1;
        }
    }
    pub fn add(&mut self, c: &str, n: u64) {
        if !self.frozen {
            *self.extra.entry(c.to_string()).or_default() += n;
        }
    }
    pub fn eval(&mut self, n: u64) {
        if !self.frozen {
            self.evaluations += n;
        }
    }
    /// records a distinct non-trivial case by hash
    pub fn nontrivial(&mut self, h: u64) {
        if !self.frozen {
            self.nontrivial.insert(h);
        }
    }
    pub fn sample(&mut self, v: impl FnOnce() -> Value) {
        if !self.frozen && self.samples.len() < 4 {
            self.samples.push(v());
        }
    }
    fn merge(&mut self, o: Stats) {
        self.evaluations += o.evaluations;
        for (k, v) in o.classes {
            *self.classes.entry(k).or_default() += v;
        }
        for (k, v) in o.extra {
            *self.extra.entry(k).or_default() += v;
        }
        for (k, v) in o.skipped {
            *self.skipped.entry(k).or_default() += v;
        }
        for (k, (n, m)) in o.known {
            let e = self.known.entry(k).or_insert((0, m));
            e.0 += n;
        }
        self.nontrivial.extend(o.nontrivial);
        for s in o.samples {
            if self.samples.len() < 12 {
                self.samples.push(s);
            }
        }
    }
}

pub trait Check: Sync {
    type Case: std::fmt::Debug + Clone + Serialize + DeserializeOwned + Send + 'static;
    fn id(&self) -> &'static str;
    fn rule(&self) -> String;
    fn strategy(&self, tier: Tier) -> BoxedStrategy<Self::Case>;
    fn cases(&self, tier: Tier) -> u32;
    fn run(&self, case: &Self::Case, stats: &mut Stats) -> Verdict;
    /// hand-written / regression cases that always run first
    fn fixed_cases(&self) -> Vec<Self::Case> {
        vec![]
    }
    fn assumptions(&self) -> Vec<String> {
        vec![]
    }
    fn shards(&self, _tier: Tier) -> usize {
        16
    }
    fn max_shrink_iters(&self) -> u32 {
        4000
    }
    /// check-specific minimisation of a failing case after proptest's own shrinking (used where
    /// one evaluation is too expensive for proptest's step-by-step shrinking)
    fn minimize(&self, _case: &Self::Case, _sig: &str) -> Option<Self::Case> {
        None
    }
}

#[derive(Debug, Clone, serde::Deserialize)]
pub struct KnownFinding {
    pub property: String,
    pub signature: String,
    pub description: String,
}

pub fn verif_dir() -> String {
    std::env::var("PV_VERIF_DIR").unwrap_or_else(|_| "/verif".to_string())
}

pub fn load_known(prop: &str) -> Vec<KnownFinding> {
    let p = format!("{}/known_findings.json", verif_dir());
    let Ok(s) = std::fs::read_to_string(&p) else { return vec![] };
    let v: Value = serde_json::from_str(&s).unwrap_or(Value::Null);
    v.get("findings")
        .and_then(|f| f.as_array())
        .map(|a| {
            a.iter()
                .filter_map(|x| serde_json::from_value::<KnownFinding>(x.clone()).ok())
                .filter(|k| k.property == prop)
                .collect()
        })
        .unwrap_or_default()
}

pub struct Failure {
    pub sig: String,
    pub msg: String,
    pub case: Value,
}

fn write_replay(prop: &str, f: &Failure) -> String {
    let dir = format!("{}/replays", verif_dir());
    let _ = std::fs::create_dir_all(&dir);
    let h = crate::util::hash_str(&f.case.to_string());
    let path = format!("{dir}/{prop}-{:012x}.json", h & 0xffff_ffff_ffff);
    let v = json!({"property": prop, "signature": f.sig, "message": f.msg, "case": f.case});
    let _ = std::fs::write(&path, serde_json::to_string_pretty(&v).unwrap());
    path
}

/// Applies the known-findings filter to a verdict. Returns Some(failure) for a new violation.
fn judge<C: Check>(c: &C, case: &C::Case, known: &[KnownFinding], stats: &mut Stats, broken: &Mutex<Option<String>>) -> Option<(String, String)> {
    let t0 = Instant::now();
    if let Ok(dir) = std::env::var("PV_TRACE_CASES") {
        let _ = std::fs::write(
            format!("{dir}/pvcase-{:?}.json", std::thread::current().id()),
            serde_json::to_string(&serde_json::json!({"case": case})).unwrap_or_default(),
        );
    }
    let v = match crate::util::guard(|| c.run(case, stats)) {
        Ok(v) => v,
        Err(p) => Verdict::Broken(format!("unguarded panic inside the check: {p}")),
    };
    let dt = t0.elapsed().as_secs_f64();
    if dt > 5.0 {
        if !stats.frozen {
            *stats.extra.entry("slow_cases_over_5s".to_string()).or_default() += 1;
        }
        if std::env::var("PV_TRACE_SLOW").is_ok() {
            eprintln!("SLOW {dt:.1}s: {}", crate::util::trunc(&serde_json::to_string(case).unwrap_or_default(), 3000));
        }
    }
    match v {
        Verdict::Pass => None,
        Verdict::Skip(r) => {
            if !stats.frozen {
                *stats.skipped.entry(r).or_default() += 1;
            }
            None
        }
        Verdict::Fail(sig, msg) => {
            if let Some(k) = known.iter().find(|k| k.signature == sig) {
                if !stats.frozen {
                    let e = stats.known.entry(sig).or_insert((0, k.description.clone()));
                    e.0 += 1;
                }
                None
            } else {
                Some((sig, msg))
            }
        }
        Verdict::Broken(m) => {
            *broken.lock().unwrap() = Some(m);
            None
        }
    }
}

pub fn seed_from_env() -> u64 {
    std::env::var("VERIF_SEED").ok().and_then(|s| s.trim().parse::<u64>().ok()).unwrap_or(0)
}

pub fn tier_from(arg: Option<&str>) -> Tier {
    let t = arg.map(|s| s.to_string()).or_else(|| std::env::var("VERIF_TIER").ok()).unwrap_or_default();
    if t == "thorough" { Tier::Thorough } else { Tier::Quick }
}

fn seed_bytes(seed: u64, shard: u64) -> [u8; 32] {
    let mut b = [0u8; 32];
    b[..8].copy_from_slice(&seed.to_le_bytes());
    b[8..16].copy_from_slice(&shard.to_le_bytes());
    b[16..24].copy_from_slice(&0x9e37_79b9_7f4a_7c15u64.to_le_bytes());
    b[24..32].copy_from_slice(&(seed ^ shard.rotate_left(17)).to_le_bytes());
    b
}

/// Runs the whole campaign of one check; returns the process exit code.
pub fn drive<C: Check>(c: &C, tier: Tier, seed: u64) -> i32 {
    crate::util::install_panic_hook();
    let t0 = Instant::now();
    let prop = c.id();
    let known = load_known(prop);
    let broken: Mutex<Option<String>> = Mutex::new(None);
    let mut total = Stats::default();
    let mut failures: Vec<Failure> = vec![];

    // 1. fixed / regression cases, plus committed regression replays
    let mut fixed: Vec<C::Case> = c.fixed_cases();
    let rdir = format!("{}/replays/regress", verif_dir());
    if let Ok(rd) = std::fs::read_dir(&rdir) {
        let mut files: Vec<_> = rd.filter_map(|e| e.ok()).map(|e| e.path()).collect();
        files.sort();
        for f in files {
            let name = f.file_name().unwrap().to_string_lossy().to_string();
            if name.starts_with(&format!("{prop}-")) && name.ends_with(".json") {
                if let Ok(s) = std::fs::read_to_string(&f) {
                    if let Ok(v) = serde_json::from_str::<Value>(&s) {
                        match serde_json::from_value::<C::Case>(v["case"].clone()) {
                            Ok(case) => fixed.push(case),
                            Err(e) => eprintln!("warning: regression replay {name} does not deserialize: {e}"),
                        }
                    }
                }
            }
        }
    }
    total.add("fixed_cases", fixed.len() as u64);
    for case in &fixed {
        if let Some((sig, msg)) = judge(c, case, &known, &mut total, &broken) {
            if !failures.iter().any(|f| f.sig == sig) {
                failures.push(Failure { sig, msg, case: serde_json::to_value(case).unwrap() });
            }
        }
    }

    // 2. generated cases, sharded
    let n = std::env::var("PV_CASES").ok().and_then(|s| s.parse().ok()).unwrap_or(c.cases(tier));
    let shards = c.shards(tier).max(1).min(n.max(1) as usize);
    let stop = AtomicBool::new(false);
    let results: Mutex<Vec<(Stats, Option<Failure>)>> = Mutex::new(vec![]);
    std::thread::scope(|sc| {
        for shard in 0..shards {
            let known = &known;
            let broken = &broken;
            let stop = &stop;
            let results = &results;
            std::thread::Builder::new()
                .stack_size(512 << 20)
                .spawn_scoped(sc, move || {
                    let per = n / shards as u32 + if (shard as u32) < n % shards as u32 { 1 } else { 0 };
                    let cfg = Config {
                        cases: per,
                        failure_persistence: None,
                        rng_algorithm: RngAlgorithm::ChaCha,
                        rng_seed: RngSeed::Fixed(seed.wrapping_mul(1000).wrapping_add(shard as u64)),
                        max_shrink_iters: c.max_shrink_iters(),
                        max_local_rejects: 1_000_000,
                        max_global_rejects: 1_000_000,
                        ..Config::default()
                    };
                    let _ = seed_bytes;
                    let mut runner = TestRunner::new(cfg);
                    let stats = std::cell::RefCell::new(Stats::default());
                    let first: std::cell::RefCell<Option<(String, String)>> = std::cell::RefCell::new(None);
                    let strat = c.strategy(tier);
                    let r = runner.run(&strat, |case| {
                        if stop.load(Ordering::Relaxed) && first.borrow().is_none() {
                            return Ok(());
                        }
                        let mut st = stats.borrow_mut();
                        match judge(c, &case, known, &mut st, broken) {
                            None => Ok(()),
                            Some((sig, msg)) => {
                                st.frozen = true;
                                let mut f = first.borrow_mut();
                                // while shrinking, only accept the same signature as a failure
                                match &*f {
                                    Some((s0, _)) if *s0 != sig => Ok(()),
                                    _ => {
                                        *f = Some((sig.clone(), msg.clone()));
                                        Err(TestCaseError::fail(format!("{sig}: {msg}")))
                                    }
                                }
                            }
                        }
                    });
                    let fail = match r {
                        Ok(()) => None,
                        Err(TestError::Fail(_, case)) => {
                            stop.store(true, Ordering::Relaxed);
                            let (sig, msg) = first.borrow().clone().unwrap_or_default();
                            Some(Failure { sig, msg, case: serde_json::to_value(&case).unwrap() })
                        }
                        Err(TestError::Abort(r)) => {
                            *broken.lock().unwrap() = Some(format!("proptest aborted: {r}"));
                            None
                        }
                    };
                    results.lock().unwrap().push((stats.into_inner(), fail));
                })
                .unwrap();
        }
    });
    for (st, f) in results.into_inner().unwrap() {
        total.merge(st);
        if let Some(f) = f {
            if !failures.iter().any(|g| g.sig == f.sig) {
                failures.push(f);
            }
        }
    }

    for f in failures.iter_mut() {
        if let Ok(case) = serde_json::from_value::<C::Case>(f.case.clone()) {
            // minimisation is a convenience: a panic inside it must not hide the violation
            if let Ok(Some(m)) = crate::util::guard(|| c.minimize(&case, &f.sig)) {
                f.case = serde_json::to_value(&m).unwrap();
            }
        }
    }
    let wall = t0.elapsed().as_secs_f64();
    // 3. evidence
    let mut coverage = json!({
        "evaluations": total.evaluations,
        "distinct_nontrivial": total.nontrivial.len(),
        "rule": c.rule(),
        "samples": total.samples,
        "classes": total.classes,
        "counters": total.extra,
        "skipped_out_of_domain": total.skipped,
        "excluded_known": total.known.iter().map(|(k, v)| (k.clone(), json!(v.0))).collect::<BTreeMap<_, _>>(),
        "generated_cases": n,
        "shards": shards,
        "profile": if cfg!(debug_assertions) { "debug-assertions+overflow-checks, opt-level 2" } else { "no debug assertions, opt-level 2" },
    });
    if let Some(b) = broken.lock().unwrap().as_ref() {
        coverage["harness_error"] = json!(b);
    }
    let ev = json!({
        "property_id": prop,
        "tier": tier.name(),
        "seed": seed,
        "level": "exploration",
        "coverage": coverage,
        "assumptions": c.assumptions(),
        "wall_s": wall,
        "violations": failures.len(),
    });
    let edir = format!("{}/evidence", verif_dir());
    let _ = std::fs::create_dir_all(&edir);
    let _ = std::fs::write(format!("{edir}/{prop}.json"), serde_json::to_string_pretty(&ev).unwrap());

    // 4. report
    crate::out!(
        "{prop} {}: {} evaluations, {} distinct non-trivial, {:.1}s, seed {seed}",
        tier.name(),
        total.evaluations,
        total.nontrivial.len(),
        wall
    );
    for (k, v) in &total.classes {
        crate::out!("  class {k}: {v}");
    }
    for (k, v) in &total.skipped {
        crate::out!("  skipped {k}: {v}");
    }
    for (sig, (n, desc)) in &total.known {
        crate::out!("KNOWN-FINDING: property={prop} {sig}: {desc} (re-confirmed on {n} generated cases)");
    }
    if let Some(b) = broken.lock().unwrap().as_ref() {
        crate::out!("HARNESS-ERROR property={prop}: {b}");
        return 2;
    }
    if !failures.is_empty() {
        for f in &failures {
            let path = write_replay(prop, f);
            crate::out!("  violation [{}]: {}", f.sig, crate::util::trunc(&f.msg, 1500));
            crate::out!("VIOLATION property={prop} replay={path}");
        }
        return 1;
    }
    if total.nontrivial.len() < 2 {
        crate::out!("HARNESS-ERROR property={prop}: fewer than 2 non-trivial cases generated");
        return 2;
    }
    0
}

/// Re-runs one saved case (no proptest involved)
pub fn replay<C: Check>(c: &C, path: &str) -> i32 {
    crate::util::install_panic_hook();
    let s = match std::fs::read_to_string(path) {
        Ok(s) => s,
        Err(e) => {
            crate::out!("cannot read {path}: {e}");
            return 2;
        }
    };
    let v: Value = match serde_json::from_str(&s) {
        Ok(v) => v,
        Err(e) => {
            crate::out!("bad replay file: {e}");
            return 2;
        }
    };
    let case: C::Case = match serde_json::from_value(v["case"].clone()) {
        Ok(c) => c,
        Err(e) => {
            crate::out!("replay case does not deserialize: {e}");
            return 2;
        }
    };
    let mut st = Stats::default();
    let strict = std::env::var("PV_STRICT").is_ok();
    let known = if strict { vec![] } else { load_known(c.id()) };
    match c.run(&case, &mut st) {
        Verdict::Pass => {
            crate::out!("replay {path}: property held");
            0
        }
        Verdict::Skip(r) => {
            crate::out!("replay {path}: out of domain ({r})");
            0
        }
        Verdict::Fail(sig, msg) => {
            if let Some(k) = known.iter().find(|k| k.signature == sig) {
                crate::out!("KNOWN-FINDING: property={} {sig}: {}", c.id(), k.description);
                0
            } else {
                crate::out!("  violation [{sig}]: {msg}");
                crate::out!("VIOLATION property={} replay={path}", c.id());
                1
            }
        }
        Verdict::Broken(m) => {
            crate::out!("HARNESS-ERROR property={}: {m}", c.id());
            2
        }
    }
}

pub fn tape(len: std::ops::Range<usize>) -> impl Strategy<Value = Vec<u16>> {
    proptest::collection::vec(proptest::num::u16::ANY, len)
}

//! In-process driver of parol's generation pipeline (the steps of build.rs::GrammarGenerator
//! without file I/O), every stage wrapped in catch_unwind.

use crate::util::guard;
use parol::analysis::lalr1_parse_table::LRResolvedConflict;
use parol::build::InnerAttributes;
use parol::generators::grammar_trans::check_and_transform_grammar_with_ignored;
use parol::parser::parol_grammar::GrammarType;
use parol::{
    CommonGeneratorConfig, GrammarConfig, GrammarTypeInfo, LRParseTable, LookaheadDFA,
    ParserGeneratorConfig, UserTraitGenerator, UserTraitGeneratorConfig,
};
use std::collections::{BTreeMap, BTreeSet};

#[derive(Clone, Debug, serde::Serialize, serde::Deserialize, PartialEq, Eq, Hash)]
pub struct Opts {
    pub max_k: usize,
    pub trim: bool,
    pub recovery_disabled: bool,
    pub max_depth: Option<usize>,
    pub minimize_boxed: bool,
    pub range: bool,
}

impl Default for Opts {
    fn default() -> Self {
        Opts { max_k: 5, trim: false, recovery_disabled: false, max_depth: None, minimize_boxed: false, range: false }
    }
}

pub struct GenCfg<'a> {
    pub opts: &'a Opts,
    pub user_type: &'a str,
    pub module: &'a str,
}

impl CommonGeneratorConfig for GenCfg<'_> {
    fn user_type_name(&self) -> &str {
        self.user_type
    }
    fn module_name(&self) -> &str {
        self.module
    }
    fn minimize_boxed_types(&self) -> bool {
        self.opts.minimize_boxed
    }
    fn range(&self) -> bool {
        self.opts.range
    }
    fn node_kind_enums(&self) -> bool {
        false
    }
}

impl ParserGeneratorConfig for GenCfg<'_> {
    fn trim_parse_tree(&self) -> bool {
        self.opts.trim
    }
    fn recovery_disabled(&self) -> bool {
        self.opts.recovery_disabled
    }
    fn max_parsing_depth(&self) -> Option<usize> {
        self.opts.max_depth
    }
}

impl UserTraitGeneratorConfig for GenCfg<'_> {
    fn inner_attributes(&self) -> &[InnerAttributes] {
        &[]
    }
}

#[derive(Clone, Copy, Debug, PartialEq, Eq, PartialOrd, Ord, serde::Serialize)]
pub enum Stage {
    Parse,
    Transform,
    Analysis,
    Generate,
    TraitGen,
    Export,
}

pub struct Built {
    /// grammar config before transformation
    pub gc0: GrammarConfig,
    /// grammar config after transformation and analysis
    pub gc: GrammarConfig,
    pub dfas: Option<BTreeMap<String, LookaheadDFA>>,
    pub lr: Option<(LRParseTable, Vec<LRResolvedConflict>)>,
    pub lexer_src: String,
    pub parser_src: String,
}

#[derive(Debug)]
pub enum Fail {
    Err(Stage, String),
    Panic(Stage, String),
}

impl Fail {
    pub fn is_panic(&self) -> bool {
        matches!(self, Fail::Panic(..))
    }
    pub fn stage(&self) -> Stage {
        match self {
            Fail::Err(s, _) | Fail::Panic(s, _) => *s,
        }
    }
    pub fn msg(&self) -> &str {
        match self {
            Fail::Err(_, m) | Fail::Panic(_, m) => m,
        }
    }
}

fn stage<T>(s: Stage, f: impl FnOnce() -> anyhow::Result<T>) -> Result<T, Fail> {
    match guard(f) {
        Ok(Ok(v)) => Ok(v),
        Ok(Err(e)) => Err(Fail::Err(s, format!("{e:#}"))),
        Err(p) => Err(Fail::Panic(s, p)),
    }
}

pub fn read_grammar(text: &str) -> Result<GrammarConfig, Fail> {
    stage(Stage::Parse, || parol::obtain_grammar_config_from_string(text, false))
}

pub fn transform(gc0: &GrammarConfig) -> Result<GrammarConfig, Fail> {
    let mut gc = gc0.clone();
    let ignored: BTreeSet<String> = gc.unreachable_non_terminals_to_ignore.iter().cloned().collect();
    let cfg = stage(Stage::Transform, || {
        check_and_transform_grammar_with_ignored(&gc0.cfg, gc0.grammar_type, &ignored)
            .map_err(|e| anyhow::anyhow!("{e}"))
    })?;
    stage(Stage::Transform, || {
        gc.update_cfg(cfg);
        Ok(())
    })?;
    Ok(gc)
}

/// The whole pipeline up to generated parser source
pub fn build(text: &str, opts: &Opts) -> Result<Built, Fail> {
    let gc0 = read_grammar(text)?;
    build_from(gc0, opts)
}

pub fn build_from(gc0: GrammarConfig, opts: &Opts) -> Result<Built, Fail> {
    let mut gc = transform(&gc0)?;
    let mut dfas = None;
    let mut lr = None;
    match gc.grammar_type {
        GrammarType::LLK => {
            let d = stage(Stage::Analysis, || parol::calculate_lookahead_dfas(&gc, opts.max_k))?;
            let k = d.values().map(|d| d.k).max().unwrap_or(0);
            gc.update_lookahead_size(k);
            dfas = Some(d);
        }
        GrammarType::LALR1 => {
            let t = stage(Stage::Analysis, || parol::calculate_lalr1_parse_table(&gc))?;
            gc.update_lookahead_size(1);
            lr = Some(t);
        }
    }
    let cfg = GenCfg { opts, user_type: "Grammar", module: "grammar" };
    let lexer_src = stage(Stage::Generate, || parol::generate_lexer_source(&gc, &cfg))?;
    let parser_src = stage(Stage::Generate, || match gc.grammar_type {
        GrammarType::LLK => {
            parol::generate_parser_source(&gc, &lexer_src, &cfg, dfas.as_ref().unwrap(), false)
        }
        GrammarType::LALR1 => {
            parol::generate_lalr1_parser_source(&gc, &lexer_src, &cfg, &lr.as_ref().unwrap().0, false)
        }
    })?;
    Ok(Built { gc0, gc, dfas, lr, lexer_src, parser_src })
}

/// Generates the user trait source (AST types, trait, adapter)
pub fn trait_source(b: &Built, opts: &Opts) -> Result<(String, bool), Fail> {
    let cfg = GenCfg { opts, user_type: "Grammar", module: "grammar" };
    stage(Stage::TraitGen, || {
        let mut type_info = GrammarTypeInfo::try_new("Grammar")?;
        let g = UserTraitGenerator::new(&b.gc);
        let src = g.generate_user_trait_source(&cfg, b.gc.grammar_type, &mut type_info)?;
        // `symbol_table` is crate-private; the lifetime decision is visible in the text
        let lt = src.contains("enum ASTType<'t>");
        Ok((src, lt))
    })
}

pub fn export_model(b: &Built) -> Result<serde_json::Value, Fail> {
    stage(Stage::Export, || {
        let m = match b.gc.grammar_type {
            GrammarType::LLK => parol::generate_parser_export_model(&b.gc, b.dfas.as_ref().unwrap())?,
            GrammarType::LALR1 => {
                parol::generate_lalr1_parser_export_model(&b.gc, &b.lr.as_ref().unwrap().0)?
            }
        };
        Ok(serde_json::to_value(&m)?)
    })
}

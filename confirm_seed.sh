#!/bin/bash
# usage: confirm_seed.sh <worktree> <dest-name>   (run from anywhere)
# Confirms a seeded change produced in a scratch worktree: patch applies to the pinned commit, the
# workspace test suite passes with it, the demo fails with it and passes without it.
# Copies SEEDED/* to /verif/seeded/<dest-name>/ and writes confirm.log there.
WT=$1; NAME=$2; DEST=/verif/seeded/$NAME
mkdir -p $DEST; cp -r $WT/SEEDED/* $DEST/
LOG=$DEST/confirm.log; : > $LOG
cd $WT || exit 2
git checkout -q -- . ; git clean -fdq -e target -e SEEDED
BASE=$(git -C /repo rev-parse HEAD)
echo "base(worktree HEAD)=$(git rev-parse HEAD)  repo HEAD=$BASE" >> $LOG
git apply --check $DEST/patch.diff >> $LOG 2>&1 && echo "patch applies: yes" >> $LOG || { echo "patch applies: NO" >> $LOG; exit 1; }
DEMO=$(ls $DEST | grep -E '^demo\.(rs|sh)$' | head -1)
place_demo() {
  if [ "$DEMO" = demo.rs ]; then
    # the demo's header says where it goes; default: crates/parol/tests/seeded_demo.rs
    tgt=$(grep -oE 'crates/[a-zA-Z_-]+/tests/[a-zA-Z_0-9]+\.rs' $DEST/demo.rs | head -1)
    [ -z "$tgt" ] && tgt=crates/parol/tests/seeded_demo.rs
    cp $DEST/demo.rs $WT/$tgt; echo $tgt
  fi
}
if grep -q "crates/parol-ls/src/seeded_demo.rs" $DEST/demo.rs 2>/dev/null; then
  # unit-test module of the binary crate parol-ls
  LSMOD=1; tgt=crates/parol-ls/src/seeded_demo.rs
  cp $DEST/demo.rs $WT/$tgt
  sed -i 's/^mod utils;$/mod utils;\n#[cfg(test)]\nmod seeded_demo;/' $WT/crates/parol-ls/src/main.rs
  run_demo() { cargo test --offline -j8 -p parol-ls seeded_demo -- --test-threads 1; }
else
  LSMOD=0; tgt=$(place_demo)
  crate=$(echo $tgt | cut -d/ -f2); tname=$(basename $tgt .rs)
  run_demo() { cargo test --offline -j8 -p $crate --test $tname; }
fi
echo "demo at $tgt" >> $LOG
echo "== demo WITHOUT patch" >> $LOG
run_demo >> $LOG.demo0 2>&1; r0=$?
tail -5 $LOG.demo0 >> $LOG; echo "exit=$r0" >> $LOG
git apply $DEST/patch.diff
echo "== demo WITH patch" >> $LOG
run_demo >> $LOG.demo1 2>&1; r1=$?
grep -E "^test |test result" $LOG.demo1 | tail -12 >> $LOG; echo "exit=$r1" >> $LOG
rm -f $WT/$tgt
[ "$LSMOD" = 1 ] && git -C $WT checkout -q -- crates/parol-ls/src/main.rs
echo "== test suite WITH patch" >> $LOG
cargo test --workspace --no-fail-fast --offline -j8 -- --test-threads 8 > $LOG.suite 2>&1; rs=$?
grep -E "^test result" $LOG.suite | awk '{p+=$4; f+=$6} END {print "passed="p" failed="f}' >> $LOG; echo "exit=$rs" >> $LOG
rm -f $LOG.demo0 $LOG.demo1 $LOG.suite
echo "SUMMARY demo_without=$r0 demo_with=$r1 suite=$rs" >> $LOG
tail -1 $LOG

#!/usr/bin/env python3
"""Fills the STATUS-TABLE and SEED-TABLE blocks of DESIGN.md from evidence/*.json, MANIFEST.json,
known_findings.json and seeded/*/meta.json + seeded/MATRIX.txt."""
import json, os, re, glob
V = '/verif'
props = [json.loads(l) for l in open(f'{V}/properties.jsonl')]
man = json.load(open(f'{V}/MANIFEST.json'))
kf = json.load(open(f'{V}/known_findings.json'))
rows = ['| id | technique (deciding method) | quick: evaluations / NT / wall | recorded findings | fixed |', '|---|---|---|---|---|']
for p in props:
    pid = p['id']
    chk = next((c for c in man['checks'] if c['property_id'] == pid), None)
    ev = None
    try:
        ev = json.load(open(f'{V}/evidence/{pid}.json'))
    except Exception:
        pass
    q = '-'
    if ev:
        q = f"{ev['coverage']['evaluations']} / {ev['coverage']['distinct_nontrivial']} / {ev['wall_s']:.0f}s ({ev['tier']})"
    nf = sum(1 for f in kf['findings'] if f['property'] == pid)
    nx = sum(1 for f in kf['fixed'] if f'property={pid} ' in f)
    tech = chk['technique'].replace('property-based testing (proptest)', 'proptest') if chk else 'not claimed'
    rows.append(f"| {pid} | {tech} | {q} | {nf or ''} | {nx or ''} |")
status = '\n'.join(rows)

matrix = {}
mp = f'{V}/seeded/MATRIX.txt'
if os.path.exists(mp):
    for l in open(mp):
        if l.startswith('#'): continue
        parts = [x.strip() for x in l.split('|')]
        if len(parts) >= 3:
            matrix.setdefault(parts[0], []).append((parts[1], parts[2], parts[3] if len(parts) > 3 else ''))
srows = ['| seed | files changed | needs (short) | caught by (quick, current tree) |', '|---|---|---|---|']
for d in sorted(glob.glob(f'{V}/seeded/*/meta.json')):
    m = json.load(open(d)); name = d.split('/')[-2]
    need = ' '.join(m['needs_to_manifest'].split())[:170].replace('|', '/')
    got = matrix.get(name)
    if got:
        c = ', '.join(f"{i}{'' if rc == '1' else ' (exit ' + rc + ')'}" for i, rc, _ in got)
    else:
        c = ', '.join(m['caught_by_quick_checks']) or 'none'
    files = ', '.join(os.path.basename(f) for f in m['files_changed'])
    srows.append(f"| {name} | {files} | {need} | {c} |")
seeds = '\n'.join(srows)
s = open(f'{V}/DESIGN.md').read()
s = re.sub(r'<!-- STATUS-TABLE-BEGIN -->.*?<!-- STATUS-TABLE-END -->', lambda m: '<!-- STATUS-TABLE-BEGIN -->\n' + status + '\n<!-- STATUS-TABLE-END -->', s, flags=re.S)
s = re.sub(r'<!-- SEED-TABLE-BEGIN -->.*?<!-- SEED-TABLE-END -->', lambda m: '<!-- SEED-TABLE-BEGIN -->\n' + seeds + '\n<!-- SEED-TABLE-END -->', s, flags=re.S)
open(f'{V}/DESIGN.md', 'w').write(s)
print('tables written')

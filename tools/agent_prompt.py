import json,sys
pid=sys.argv[1]
variant=sys.argv[2] if len(sys.argv)>2 else "a"
props={json.loads(l)['id']:json.loads(l) for l in open('/verif/properties.jsonl')}
p=props[pid]
wt=f"/tmp/wt-{pid}{'' if variant=='a' else '-'+variant}"
print(f"""You are helping to evaluate a test-adequacy study of the Rust project jsinger67/parol (an LL(k)/LALR(1) parser generator with runtime and language server). Your job: craft ONE realistic, subtle defect ("seeded change") in the project's source code that breaks the semantic property below, while the project still compiles and its entire existing test suite still passes.

PROPERTY {pid}: {p['title']}
Statement: {p['statement']}
Quantified over: {p['quantifier']['text']}
Code the property is anchored in: {', '.join(p['anchors']['files'])}

WORKSPACE: you have your own scratch git worktree of the repository at {wt} (a detached checkout of the pinned commit). Work ONLY inside {wt}. Never touch /repo, never read or write anything under /verif, and do not look for other people's verification tooling. The sandbox is offline: always pass --offline to cargo (or set CARGO_NET_OFFLINE=true). Use the worktree's own target directory (the default {wt}/target). The machine is shared: use at most 6 parallel jobs (cargo -j6, --test-threads 6).

WHAT TO PRODUCE
1. A source change (to non-test source files under crates/*/src only; do not edit tests, snapshots, examples or data files) that breaks the property above. Requirements:
   - The workspace still compiles: `cd {wt} && cargo test --workspace --no-run --offline -j6`.
   - The whole existing test suite still passes, unedited: `cd {wt} && cargo test --workspace --no-fail-fast --offline -j6 -- --test-threads 6` (213 tests across the workspace; it takes a few minutes the first time). Run it and confirm 0 failures.
   - The defect must need something specific to manifest — an unusual input or grammar shape, a multi-step sequence, a particular option combination, a specific interleaving, or two cooperating sites that each look fine alone — NOT something ordinary use would expose at once (a change that breaks every grammar or every parse is useless). Think of the kind of bug a plausible refactoring or "optimisation" would introduce: an off-by-one at a boundary, a wrong comparison in a rarely taken branch, a dropped case, a cache keyed too coarsely, a tie broken differently, a flag ignored in one of two code paths.
   - Keep it small (typically 1-15 changed lines) and plausible-looking.
2. A demonstration: a small Rust test file or program (e.g. a new file crates/<crate>/tests/seeded_demo.rs, or a tiny example) that FAILS with your change and PASSES on the unchanged code, and that shows the property violation directly (e.g. a grammar plus an input for which the generated parser gives the wrong verdict). The demonstration may use any public API; for runtime parsers you can generate code with parol's library API into a temp dir, or drive analysis functions directly — whatever is simplest. Verify both directions yourself (flip with `git apply` / `git apply -R`; never use git stash).
3. Save exactly these files in {wt}/SEEDED/ :
   - patch.diff  — `git diff` of the source change only (without the demo), applicable with `git apply` at the repository root of the pinned commit;
   - demo.rs (or demo.sh plus whatever it needs) — the demonstration, with a comment at the top saying where to place it and how to run it;
   - notes.md — what the change is, which property clause it breaks, exactly what is needed for it to manifest (the specific input/sequence/option), the commands you ran and their results (test suite summary line, demo failing with / passing without).

Before finishing, double check: patch.diff applies cleanly to a clean checkout (`git apply -R SEEDED/patch.diff && git apply --check SEEDED/patch.diff && git apply SEEDED/patch.diff`), the full test suite passes with the patch applied, and the demo distinguishes patched from unpatched code. Leave the worktree with the patch APPLIED and the SEEDED directory in place. Your final message should be a short summary (what you changed, what it needs to manifest, test-suite result, demo result).
""")

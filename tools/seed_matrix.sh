#!/bin/bash
# Applies every seeded change to /repo in turn, runs the quick check of its own property (and any
# further ids given in meta.json's caught_by_quick_checks), reverts, and writes seeded/MATRIX.txt.
# usage: seed_matrix.sh [name ...]     (default: all seeds)
cd /verif
OUT=/verif/seeded/MATRIX.txt
names="$@"; [ -z "$names" ] && names=$(ls -d seeded/*/ | xargs -n1 basename)
[ -z "$1" ] && { echo "# seed | check | exit code with the seed applied (1 = VIOLATION reported) | signature" > $OUT; echo "# repo HEAD $(git -C /repo rev-parse --short HEAD), $(date -u +%F)" >> $OUT; }
if [ -n "$(git -C /repo status --short)" ]; then echo "/repo is not clean"; exit 2; fi
for n in $names; do
  d=seeded/$n
  p=$d/patch.diff; [ -f $d/patch-ported-to-fixed-tree.diff ] && p=$d/patch-ported-to-fixed-tree.diff
  if ! git -C /repo apply --check /verif/$p 2>/dev/null; then echo "$n | - | patch does not apply to HEAD" | tee -a $OUT; continue; fi
  git -C /repo apply /verif/$p
  ids=$(python3 -c "import json;print(' '.join(json.load(open('$d/meta.json'))['caught_by_quick_checks']))")
  for id in $ids; do
    o=$(./check $id quick 2>&1); rc=$?
    sig=$(echo "$o" | grep -oE "violation \[[^]]*\]" | head -1)
    echo "$n | $id | $rc | $sig" | tee -a $OUT
  done
  git -C /repo checkout -- .
done
# rebuild after revert: the binaries under /verif/target* must never keep a seeded change compiled in
(cd /verif/harness && cargo build --quiet 2>/dev/null; cd /repo && RUSTFLAGS="--cfg parol_verif" cargo build --quiet --offline -p parol-ls --target-dir /verif/target-ls 2>/dev/null) || true

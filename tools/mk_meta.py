#!/usr/bin/env python3
"""Writes /verif/seeded/<name>/meta.json from the seed's notes.md, patch and confirm.log plus the
table below (which checks caught it when the patch was applied to /repo; see seeded/MATRIX.txt)."""
import json, os, re, subprocess
ROOT = '/verif/seeded'
# name -> (checks that report a VIOLATION with the seed applied, remarks)
CAUGHT = {
 'C01-a': (['C01', 'C05', 'C06'], ''),
 'C02-a': (['C02'], ''),
 'C03-a': (['C03'], 'original patch does not apply after the augmentation fix (c84216b); patch-ported-to-fixed-tree.diff carries the same change over'),
 'C04-a': (['C04'], ''),
 'C05-a': (['C05'], ''),
 'C06-a': (['C06', 'C05'], ''),
 'C07-a': (['C07', 'C01'], ''),
 'C08-a': (['C08'], 'original patch does not apply after the fix of LookaheadDFA::eval (7206138); patch-ported-to-fixed-tree.diff carries the same change over'),
 'C09-a': (['C09'], ''),
 'C10-a': (['C10'], ''),
 'C11-a': (['C11'], ''),
 'C12-a': (['C12'], 'first missed; caught after the generator learned numbered start symbols with numbered siblings'),
 'C13-a': (['C13'], ''),
 'C14-a': (['C14', 'C03'], ''),
 'C15-a': (['C15'], ''),
 'C16-a': (['C16', 'C13'], 'C16 was extended with a family of multi-state scanners for it'),
 'C17-a': (['C17'], ''),
 'C18-a': (['C18'], ''),
 'C19-a': (['C19', 'C01'], ''),
 'C20-a': (['C20'], ''),
 'C21-a': (['C21', 'C18'], 'first missed; caught after C21 learned annotated grammars (lookahead expressions)'),
 'C24-a': (['C24'], 'the original patch relied on the hash order of crate::group_by, which the determinism fix (5f1abba) made ordered, so it became harmless; patch-ported-to-fixed-tree.diff groups with a local HashMap instead. First missed; caught after the C24 generator learned terminals that are the whole right-hand side of several single-production non-terminals'),
 'C25-a': (['C25'], 'original patch does not apply after the rendering fixes; patch-ported-to-fixed-tree.diff carries the same change over'),
 'C26-a': (['C26'], ''),
 'C27-a': (['C27'], ''),
 'C28-a': (['C28'], ''),
 'C29-a': (['C29'], ''),
 'C30-a': (['C30'], 'first missed; caught after the C30 generator learned documents with per-line mixed line ends and multi-byte characters on many lines'),
 'C31-a': (['C31'], ''),
 'C01-c': (['C01', 'C07'], ''),
 'C02-c': (['C02', 'C01'], ''),
 'C03-c': (['C03', 'C21'], 'first missed by C03 (C21 caught it); caught by C03 after a quarter of the C01/C03 grammars got AST-control annotations (clipped symbols)'),
 'C13-c': (['C13'], 'multi-file demonstration (demo.sh), confirmed by hand, see confirm.log'),
 'C22-b': (['C22'], ''),
 'C23-b': (['C23'], 'first missed by C23 and C10 (the language is unchanged); caught after C22/C23 grammars learned a non-terminal whose alternatives share a prefix symbol while one alternative carries other AST control on it. While looking at the run, a genuine defect was found on the unchanged tree (clipped non-terminal with a user type, fixed in a6bdd54)'),
 'C24-b': (['C24'], 'the inverse of part of fix 5f1abba'),
 'C26-b': (['C26'], ''),
 'C27-b': (['C27'], ''),
 'C28-b': (['C28'], ''),
 'C30-b': (['C30'], 'first missed; caught after C30 learned %on / %skip directive texts that make the server publish token_not_in_scanner diagnostics, with comments that mention the directive keywords'),
 'C31-b': (['C31'], 'the demonstration needs RUSTFLAGS=--cfg parol_verif (it uses the guarded re-export); confirmed by hand, see confirm.log'),
 'C32-b': (['C32'], ''),
 'C33-b': (['C33'], ''),
 'C34-b': (['C34'], ''),
 'C08-b': (['C08'], ''),
 'C11-b': (['C11'], ''),
 'C12-b': (['C12'], 'first missed by C12 and C03; caught after C12 learned grammars with clipped / member-named / user-typed occurrences (a third of its cases)'),
 'C15-b': (['C15'], ''),
 'C16-b': (['C16', 'C14'], ''),
 'C18-b': (['C18', 'C21'], ''),
 'C21-b': (['C21', 'C13'], 'first missed by C21 (C13 caught it); caught by C21 after lookahead patterns with regex meta characters (., a+, (b)) joined the annotation pool'),
 'C25-b': (['C25'], 'first missed; caught after titles and comments with backslashes, escaped quotes, tabs, line breaks and non-ASCII characters joined the annotation pool - which also uncovered a genuine defect of parol\'s String token (recorded)'),
 'C04-b': (['C04'], ''),
 'C06-b': (['C06'], ''),
 'C07-b': (['C07', 'C01'], ''),
 'C09-b': (['C09'], 'first missed; caught after the grammar generator learned groups with an empty alternative, `( x | )`'),
 'C10-b': (['C10'], 'first missed; caught after C10 learned grammars with lookahead variants of one terminal text and AST-control attributes on occurrences'),
 'C14-b': (['C14'], ''),
 'C17-b': (['C17'], ''),
 'C20-b': (['C20'], 'first missed; caught after C20 learned the option combination depth limit x tree trimming (same limit must behave identically with and without trimming)'),
 'C22-a': (['C22'], ''),
 'C23-a': (['C23'], 'the first run crashed the harness (exit 101): the grammar-level minimiser did not re-index the inputs after removing a terminal; fixed, minimisation now runs under catch_unwind'),
 'C01-b': (['C01', 'C08'], ''),
 'C02-b': (['C02', 'C21'], ''),
 'C03-b': (['C03'], 'first missed by C03 and C18; caught after C01/C03 grammars learned lookahead variants of one terminal text (same text and kind, different lookahead expression)'),
 'C05-b': (['C05', 'C06', 'C01'], ''),
 'C13-b': (['C13'], 'first missed by C13 and C18; caught after the C13 model learned terminals with several occurrences that carry different scanner state lists (union semantics)'),
 'C19-b': (['C19', 'C17'], 'the inverse of fix b45f58c; first missed by C19 (caught by C17); caught by C19 after it learned grammars with a %skip list and skip-listed tokens in the inputs'),
 'C32-a': (['C32'], ''),
 'C33-a': (['C33'], ''),
 'C34-a': (['C34'], ''),
}
props = {json.loads(l)['id']: json.loads(l) for l in open('/verif/properties.jsonl')}

def needs(notes):
    out, on, n = [], False, 0
    for line in notes.splitlines():
        if re.match(r'^#+ .*([Mm]anifest|[Nn]eed|[Tt]rigger)', line):
            on, n = True, 0
            continue
        if line.startswith('#'):
            on = False
        if on and line.strip() and n < 14:
            out.append(line.rstrip()); n += 1
    return '\n'.join(out)

for name in sorted(os.listdir(ROOT)):
    d = os.path.join(ROOT, name)
    if not os.path.isdir(d):
        continue
    pid = name.split('-')[0]
    notes = open(os.path.join(d, 'notes.md')).read() if os.path.exists(os.path.join(d, 'notes.md')) else ''
    patch = open(os.path.join(d, 'patch.diff')).read()
    files = re.findall(r'^\+\+\+ b/(.*)$', patch, re.M)
    conf = open(os.path.join(d, 'confirm.log')).read() if os.path.exists(os.path.join(d, 'confirm.log')) else ''
    summ = [l for l in conf.splitlines() if l.startswith('SUMMARY')]
    base = re.search(r'base\(worktree HEAD\)=(\w+)', conf)
    caught, remark = CAUGHT.get(name, ([], 'not tried yet'))
    demo = [f for f in os.listdir(d) if f.startswith('demo.')]
    meta = {
      'property': pid,
      'title': props[pid]['title'],
      'origin': 'written by a fresh sub-agent that saw only the property text and a scratch worktree of /repo; confirmed in that worktree by /verif/confirm_seed.sh',
      'patch': 'patch.diff' if not os.path.exists(os.path.join(d, 'patch-ported-to-fixed-tree.diff')) else 'patch-ported-to-fixed-tree.diff (applies to the current /repo); patch.diff is the original against ' + (base.group(1)[:7] if base else 'the commit it was written for'),
      'files_changed': files,
      'needs_to_manifest': needs(notes),
      'demonstration': demo,
      'confirmed': {
        'base_commit': base.group(1) if base else None,
        'what_was_run': 'confirm_seed.sh: git apply --check; demonstration without the patch; demonstration with the patch; cargo test --workspace --no-fail-fast --offline with the patch (demonstration file removed)',
        'result': summ[-1] if summ else None,
        'meaning': 'demo_without=0: demonstration passes on the unchanged code; demo_with=101: it fails with the change; suite=0: the whole existing test suite passes with the change',
      },
      'caught_by_quick_checks': caught,
      'remarks': remark,
    }
    json.dump(meta, open(os.path.join(d, 'meta.json'), 'w'), indent=1)
    print(name, caught, summ[-1] if summ else 'NO CONFIRM LOG')

#!/bin/bash
# usage: seeds.sh "<ids>" "<seeds>"  : runs the quick tier of each check for each seed (no rebuild), reports non-zero exits
cd /verif
for id in $1; do for s in $2; do
  out=$(VERIF_SEED=$s ./target/debug/pv $id quick 2>&1); rc=$?
  if [ $rc -ne 0 ]; then echo "ALARM $id seed=$s exit=$rc: $(echo "$out" | grep -E 'violation|HARNESS' | head -2 | cut -c1-300)"; fi
done; echo "done $id"; done

#!/bin/bash
# usage: try_seed.sh <patch> <ID> [<ID>...]   applies a seeded patch to /repo, runs the quick checks, reverts
P=$1; shift
cd /repo && git apply $P || { echo "patch does not apply"; exit 2; }
for id in "$@"; do
  out=$(cd /verif && ./check $id quick 2>&1)
  echo "$id exit=$? $(echo "$out" | grep -E '^VIOLATION|HARNESS-ERROR' | head -3 | tr '\n' ' ')"
  echo "$out" | grep -E "^  violation" | cut -c1-300 | head -3
done
cd /repo && git checkout -- . && git status --short | head -3

#!/bin/bash
# usage: try_seed.sh <patch> <ID> [<ID>...]   applies a seeded patch to /repo, runs the quick checks, reverts
P=$1; shift
cd /repo && git apply $P || { echo "patch does not apply"; exit 2; }
for id in "$@"; do
  out=$(cd /verif && ./check $id quick 2>&1)
  echo "$id exit=$? $(echo "$out" | grep -E '^VIOLATION|HARNESS-ERROR' | head -3 | tr '\n' ' ')"
  echo "$out" | grep -E "^  violation" | cut -c1-300 | head -3
done
cd /repo && git checkout -- . && git status --short | head -3
# rebuild after revert: the binaries under /verif/target* must never keep a seeded change compiled in
(cd /verif/harness && cargo build --quiet 2>/dev/null; cd /repo && RUSTFLAGS="--cfg parol_verif" cargo build --quiet --offline -p parol-ls --target-dir /verif/target-ls 2>/dev/null) || true

#!/usr/bin/env python3
"""Generates /verif/MANIFEST.json from the table below (one entry per claimed property)."""
import json, subprocess

CHECKS = {
 "C01": ("Generated grammars x generated inputs; verdict of the real runtime LL(k) parser (tables loaded from parol's generated source) compared with an independent chart recogniser over the user's EBNF, recovery on and off.",
         "Trusts the interpretive loader (generated source text -> tables; the scanner goes through scnr2_generate exactly like the proc-macro) and the chart oracle (unit-tested against bounded language enumeration).",
         "property-based testing (proptest): differential against a reference recogniser"),
 "C02": ("Every successful parse of generated grammars/sentences: tree nodes are productions of the transformed grammar, action trace = post-order of inner nodes with their children, leaves = scanner tokens.",
         "Trusts the interpretive loader and the harness's recording tree builder / action recorder.",
         "property-based testing (proptest): structural invariant over recorded tree and action history"),
 "C03": ("Generated LALR(1)-typed grammars (left recursion, recursive start symbols) x inputs; crash-freedom of table construction for reference-LALR(1) grammars, verdict vs chart recogniser, reductions = post-order of the tree (reverse rightmost derivation).",
         "Trusts the interpretive loader; domain restricted to grammars parol accepts without resolved conflicts; the crash clause is decided with the reference LALR(1) construction.",
         "property-based testing (proptest): differential against a reference recogniser + structural invariant"),
 "C04": ("Generated conflicting and non-conflicting grammars; reference canonical-LR(1)-merged-by-core construction decides LALR(1)-ness; parol must reject or report resolved conflicts; conflict-resolved parsers must only accept sentences.",
         "Trusts the reference LR(1) construction (unit-tested on textbook grammars; no spurious/missing conflicts against parol on thousands of grammars except the listed findings). Two genuine defects are listed in known_findings.json.",
         "property-based testing (proptest): differential against a reference LALR(1) construction"),
 "C05": ("Generated grammars x lookahead limit; per non-terminal minimal k, accept/reject, automaton depth and explain_conflicts compared with a reference strong-LL(k) decision from set-of-strings FIRST/FOLLOW fixpoints.",
         "Reference bounded to (|T|+1)^K <= 6000 strings per set; grammars beyond the budget are counted as skipped.",
         "property-based testing (proptest): differential against a reference model"),
 "C06": ("Generated grammars x histories of FIRST_k/FOLLOW_k cache requests in any order; every returned set compared with the reference fixpoint and with fresh caches.",
         "Reads the cached FOLLOW set through a cfg-guarded accessor hook; reference bounded as for C05.",
         "property-based testing (proptest): model-based history check against a reference model"),
 "C07": ("For every non-terminal of generated accepted grammars the (token string -> production) language of the un-minimized trie, the exported minimized automaton and the Trans table in generated source equals the reference lookahead sets; determinism and sort order checked.",
         "Automata are enumerated exhaustively (DFS) up to depth 12 / 200k steps.",
         "property-based testing (proptest): differential against a reference model, exhaustive per automaton"),
 "C08": ("Real LookaheadDFA::eval over real TokenStreams on valid, corrupted, truncated and random token buffers for every generated automaton; result must be the production whose lookahead string prefixes the buffer, or a prediction error.",
         "Buffers are rendered as text and scanned by the real scanner; buffers the scanner tokenizes differently are discarded and counted.",
         "property-based testing (proptest): differential against a reference model"),
 "C09": ("Generated EBNF grammar texts (nesting <= 3, helper-looking and undefined names) read as ll(k) and lalr(1): the bounded language (all sentences up to length 6, per non-terminal too) of the written EBNF equals that of the derived plain productions; random longer derivations cross-checked by chart recognisers; introduced names must be unused names.",
         "Language equality is decided exhaustively only up to sentence length 6 over <= 5 terminals (beyond that by sampled derivations).",
         "property-based testing (proptest): two-sided bounded language equivalence against the generator's AST"),
 "C10": ("Generated prefix-heavy grammars passed to the public left_factor: terminates, bounded language unchanged (also per original non-terminal), no two non-empty alternatives of a non-terminal share their first symbol, new names unused.",
         "Language equality exhaustive up to length 6 over <= 3 terminals, sampled beyond.",
         "property-based testing (proptest): metamorphic (language-preserving transformation) + structural invariant"),
 "C11": ("Generated wild BNF Cfg values with all pathologies: nullable / non-productive / unreachable / left-recursive sets equal the sets computed from the definitions; check_and_transform_grammar fails iff and names exactly the first non-empty offending set.",
         "Cfg values are built through parol's public constructors; all referenced names are defined and the start symbol has a production (documented precondition of the set functions).",
         "property-based testing (proptest): differential against reference definitions"),
 "C12": ("Generated lalr(1)-typed grammars (numbered start symbols with numbered siblings, recursive single-production start symbols): the grammar handed to table construction has an isolated single-production start symbol with a fresh name and the same bounded language.",
         "Language equality exhaustive up to length 6 over <= 4 terminals, sampled beyond.",
         "property-based testing (proptest): metamorphic (language-preserving transformation) + structural invariant"),
 "C31": ("Generated pairs of token sequences: the recovery's edit script applied as adjust_token_stream applies it yields the expected sequence; non-keep count = reported distance = Wagner-Fischer distance.",
         "Reaches the crate-private function through a cfg-guarded re-export.",
         "property-based testing (proptest): differential against a reference implementation + script validation"),
 "C32": ("Generated operation histories on packed Terminals / KTuple / KTuples at every bit-width boundary and k in 0..=10, mirrored on Vec<u16> / set-of-sequence models; observers, equality, hash and ordering must be functions of the denoted sequence.",
         "KTuple equality is only demanded between values with equal sequence, k and completeness; pushing onto the epsilon value is excluded (no documented meaning).",
         "property-based testing (proptest): model-based (state machine) testing against a sequence model"),
 "C13": ("Generated scanners (regex-AST terminals in three quoting styles, overlapping patterns, lookaheads, 1-3 scanner states, enter/push/pop transitions, auto newline/whitespace flags, comments, %allow_unmatched) x inputs; token sequence of the real TokenStream for lookahead sizes 1,2,3,5 and the parse-tree leaves compared with a reference lexer that implements the documented rules on the regex ASTs.",
         "Terminals are declared by primary productions in a known order (the only form for which 'declared first' is documented); regex features outside the generated subset are not explored; the reference matcher is unit-tested against the regex crate.",
         "property-based testing (proptest): differential against a reference lexer, metamorphic over lookahead size and consumption"),
 "C14": ("Generated scanner grammars (LL and LR) x inputs with CR/LF mixes, tabs, BMP/astral text, comments and unmatched gaps: tokens contiguous and covering the input, text = input slice, line/column = independent position function, tree leaves = tokens.",
         "One genuine defect of the external scnr2 crate (line counting after backtracking over a line feed) is a recorded finding matched by signature.",
         "property-based testing (proptest): round-trip (tokens reassemble the input) + differential position oracle"),
 "C15": ("Generated comment declarations (self-overlapping delimiters, regex meta characters, all quoting styles, several styles at once) x adversarial inputs; whole token sequence compared with the reference lexer's documented comment extents.",
         "Two genuine defects whose pattern strings are pinned by the repository's tests are recorded findings with exact predicates (three-character end delimiter after a partial delimiter; line comment ended by a lone CR).",
         "property-based testing (proptest): differential against a reference lexer"),
 "C16": ("Random multi-state scanner grammars and a fixed grammar with every combination of auto newline / whitespace / allow_unmatched x stray texts: unmatched text where it is not allowed must make the parse fail; where allowed it must not change the verdict and must stay in the tree.",
         "Whether a text is unmatched is decided by the reference lexer, not assumed. One genuine defect (stray LF with %auto_newline_off) is a recorded finding.",
         "property-based testing (proptest): reference-lexer oracle + metamorphic (input with/without stray text)"),
 "C17": ("Random LL and LALR grammars with comments and a %skip-listed terminal x token strings rendered plainly and decorated with whitespace, newlines, comments and skip-listed tokens: same verdict, same action sequence, comments delivered once in order, every skipped token a tree leaf.",
         "Skip lists are exercised in the INITIAL state; scanner-state switching combined with skip lists is covered by C13/C18 only on the token level.",
         "property-based testing (proptest): metamorphic relation between plain and decorated input"),
 "C18": ("Grammars repeating 9 texts across '..', \"..\", /../ with optional lookaheads, inline or via primary non-terminals, with %on / %skip: the number each occurrence carries in PRODUCTIONS / export model is the number whose scanner pattern is that occurrence's expansion; numbers shared iff identity equal; names, skip list, transitions, LR actions consistent; end-to-end parse of own samples.",
         "One genuine defect (lookahead written once as string and once as regex gives two numbers) is a recorded finding.",
         "property-based testing (proptest): cross-artefact consistency invariant"),
 "C19": ("Random LL and LALR grammars (conflict-resolved tables included) x token-level inputs, a ~1500-token repetition, random Unicode / lossy bytes / grammar-alphabet text, recovery on and off: no panic (debug assertions + overflow checks on), no internal-error result, at most 101 reported errors, termination decided by deterministic work counters.",
         "Termination is a bounded-work check on explored inputs (64 x (tokens+1) x (productions+1) + 2000 builder/action calls), not a liveness proof. Non-termination of conflict-resolved LALR tables is a recorded finding.",
         "property-based testing (proptest): crash / bounded-work oracle"),
 "C20": ("Random grammars x inputs x option sets (trim, recovery off, depth limits 1..10^6): same verdict and identical action trace as the option-free run, or MaxParsingDepthExceeded, monotone in the limit, never a panic.",
         "Action traces are compared through the harness's recording UserActionsTrait; trimmed runs have no tree to compare.",
         "property-based testing (proptest): metamorphic over parser options"),
 "C21": ("Random accepted grammars: analysis results, export model and the tables parsed out of the generated source agree (automata literally and by language, productions, LR actions/gotos as maps, names, skip lists, scanner modes and transitions, start index, MAX_K, option calls), all indices in range.",
         "The generated source is read with syn and an own reader of the scanner! macro body.",
         "property-based testing (proptest): three-way cross-artefact comparison"),
 "C24": ("Random grammars biased to left-factoring ties generated six times in one process (fresh RandomState for every hash map in every run): parser source, trait source and expanded grammar byte-identical.",
         "Process-level nondeterminism other than hash seeds (environment, time) is not explored; in-process repetition exposes hash-order dependence exactly like separate processes because every HashMap instance draws new keys.",
         "property-based testing (proptest): metamorphic (repeat the computation, compare bytes)"),
 "C25": ("Random grammars decorated with every PAR annotation and declaration: read -> render_par_string -> read, before and after transformation, compared field by field on exactly the aspects the property names.",
         "Production-level collection/option attributes are rendered as comments by design and not compared.",
         "property-based testing (proptest): round-trip"),
 "C26": ("Valid generated grammars of all pools (annotated, hostile names, scanner grammars, wild LR grammars), token-level and byte-level mutants, random PAR token strings, both grammar types, K in {0,1,2,5,10}: every pipeline stage runs under catch_unwind; any panic is a violation keyed by its source location.",
         "Stack overflow aborts are not catchable in-process; rustfmt invocation is excluded. One genuine defect (lalry panic on cyclic grammars) is a recorded finding.",
         "property-based testing (proptest) with grammar-aware and byte-level mutation: crash oracle"),
 "C33": ("Grammars with hostile non-terminal names, member names and terminal texts: generated sources parse with syn; terminal / non-terminal / type / member / variant / method names are valid non-keyword identifiers and pairwise distinct where required.",
         "Semantic clashes with prelude items (a type named Box) are left to the compile check C22. Five naming defects are recorded findings with exact predicates.",
         "property-based testing (proptest): invariant over generated source parsed with syn"),
 "C27": ("Valid grammar texts with comments inserted at token boundaries x formatter options: formatted text describes the same grammar (C25's field-by-field comparison), keeps every comment in order, and is a fixed point of the formatter.",
         "Talks to the hooked parol-ls binary (cfg parol_verif driver, JSON lines). Comment placement inside syntactic constructs and two more shapes are recorded findings; the restricted placement mode is checked strictly.",
         "property-based testing (proptest): round-trip + idempotence + invariant (comment sequence)"),
 "C28": ("Valid grammar texts x every occurrence of a non-terminal or scanner-state identifier x fresh names: prepareRename accepts (refuses start symbol / INITIAL), the rename edits applied to the text equal the text with exactly that identifier's tokens replaced.",
         "Name spaces are kept disjoint by the generator so that token-wise replacement is the exact expected result; positions are BMP-only (character = UTF-16 unit).",
         "property-based testing (proptest): differential against a textual renaming model"),
 "C29": ("Histories of open/change notifications over a pool of texts plus a completion order of the gated background analyses: the last published diagnostics carry the final version and equal those of a fresh server on the final text.",
         "The harness owns the schedule through the cfg-guarded gate (an analysis blocks on its first access to the grammar); un-gated OS scheduling is not explored.",
         "property-based testing (proptest): schedule-controlled history check against a fresh-server oracle"),
 "C30": ("Documents (valid, mutated, random Unicode, CRLF, multi-byte) x positions in, at the end of and beyond every line x hover, definition, symbols, prepare-rename, rename, formatting, code action: no panic, process alive, pos_to_offset inside the text on a character boundary.",
         "Panics are observed through the driver's catch_unwind; aborts through the child process ending.",
         "property-based testing (proptest) with mutation: crash oracle + range invariant"),
 "C34": ("Valid, mutated and random texts over the PAR vocabulary: parol's grammar parser and the language server's parser agree on 'syntax error or not'; runs stopped by a semantic error are undetermined and only counted.",
         "Only the syntax verdict is compared (parser / lexer error vs none).",
         "property-based testing (proptest) with grammar-aware mutation: differential between two parsers"),
}

def main():
    hooks = subprocess.check_output(["git","-C","/repo","log","--format=%h %s"]).decode().splitlines()
    hook_commits = [l.split()[0] for l in hooks if "verif hooks" in l]
    m = {
      "version": 1,
      "setup_cmd": "cd /verif/harness && CARGO_NET_OFFLINE=true cargo build 2>&1 | tail -3 && cd /repo && CARGO_NET_OFFLINE=true RUSTFLAGS='--cfg parol_verif' cargo build --offline -p parol-ls --target-dir /verif/target-ls 2>&1 | tail -3",
      "hooks": {
        "guard": "--cfg parol_verif",
        "enable": "rustflags = [\"--cfg\", \"parol_verif\"] in /verif/harness/.cargo/config.toml (harness builds parol and parol_runtime from /repo as path dependencies with the flag); RUSTFLAGS='--cfg parol_verif' when building parol-ls",
        "baseline_off_cmd": "cd /repo && cargo test --workspace --no-fail-fast --offline",
        "source_commits": hook_commits,
        "add_only": True
      },
      "engines": [
        {"name": "pv", "path": "/verif/harness", "serves_properties": sorted(CHECKS),
         "kind_free_text": "proptest-driven campaign engine (16 sharded TestRunners, fixed seeds from VERIF_SEED, shrinking, plain-JSON replay files, known-findings matching by signature) around an interpretive loader that executes parol-generated parser source without rustc, with reference oracles (chart recogniser, FIRST/FOLLOW/strong-LL(k), LALR(1))"}
      ],
      "checks": [],
      "not_applicable": [],
      "notes": "Exit codes: 0 held, 1 violation (VIOLATION line), 2 inconclusive (harness error, build failure, watchdog). known_findings.json lists recorded genuine defects (matched by signature) and fixed ones."
    }
    for pid in sorted(CHECKS):
        text, note, tech = CHECKS[pid]
        m["checks"].append({
          "property_id": pid,
          "quick_cmd": f"./check {pid} quick",
          "thorough_cmd": f"./check {pid} thorough",
          "evidence_file": f"/verif/evidence/{pid}.json",
          "replay_cmd_template": f"./check {pid} --replay {{path}}",
          "engine": "pv",
          "level_claimed": {"category": "exploration", "text": text + " Holds on everything explored; no claim of absence.", "design_ref": f"DESIGN.md section 3, {pid}"},
          "level_note": note,
          "technique": tech,
        })
    props = [json.loads(l)["id"] for l in open("/verif/properties.jsonl")]
    for pid in props:
        if pid not in CHECKS:
            m["not_applicable"].append({"property_id": pid, "reason": "check not built yet in this round (work in progress); the technique applies, see DESIGN.md"})
    json.dump(m, open("/verif/MANIFEST.json","w"), indent=1)
    print("claimed:", len(CHECKS), "not yet:", len(m["not_applicable"]))

main()
